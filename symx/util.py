"""helpers shared by harnesses"""
from __future__ import annotations

import json
import os
import subprocess
import sys
import time

import z3

from . import core, backend
from .core import Engine, Abort, EngineError, SymInt, SymBool, SymArray, lift, mk

ROOT = os.path.dirname(os.path.dirname(os.path.abspath(__file__)))


class Box(dict):
    __getattr__ = dict.__getitem__
    __setattr__ = dict.__setitem__


def single_path(fn, timeout_ms=30000):
    """Run fn(engine) expecting exactly one (fully merged) path.  Returns (engine, box) where box is
    whatever fn returned; the obligations met on the way stay in engine.collected."""
    eng = Engine(timeout_ms=timeout_ms)
    box = {}
    eng.collected = []

    def wrapped(e):
        e.batch = True
        r = fn(e)
        e.collected = list(e.pending)
        e.pending = []
        box["r"] = r
    ok = eng.explore(wrapped)
    if eng.paths != 1 or eng.work:
        raise EngineError(f"expected a single merged path, got {eng.paths} (+{len(eng.work)} pending); aborts={eng.aborts}")
    if eng.aborts:
        raise EngineError(f"single path aborted: {eng.aborts}")
    return eng, box.get("r")


def obligations_formula(collected, prefix=None):
    sel = [c for l, c in collected if prefix is None or l.startswith(prefix)]
    return z3.And(*sel) if sel else z3.BoolVal(True)


def arr_from_model(model, name, shape, dtype="int64"):
    import numpy as np
    n = 1
    for d in shape:
        n *= d
    vals = [int(model.get(f"{name}_{k}", 0)) for k in range(n)]
    return np.array(vals, dtype=dtype).reshape(shape)


def qstats(results):
    q = {"unsat": 0, "sat": 0, "unknown": 0}
    t = 0.0
    for r in results:
        q[r.status] += 1
        t += r.seconds
    return q, round(t, 3)


def run_real_subprocess(code, env=None, timeout=300):
    """Run python code on the real (compiled) repository code in a fresh interpreter.  Returns
    (returncode, stdout, stderr)."""
    e = dict(os.environ)
    e.update(env or {})
    py = os.path.join(ROOT, ".venv", "bin", "python")
    p = subprocess.run([py, "-c", code], capture_output=True, text=True, env=e, timeout=timeout)
    return p.returncode, p.stdout, p.stderr


def z3_abs(e):
    return z3.If(e >= 0, e, -e)


def z3_max(*es):
    r = es[0]
    for e in es[1:]:
        r = z3.If(e > r, e, r)
    return r


def z3_min(*es):
    r = es[0]
    for e in es[1:]:
        r = z3.If(e < r, e, r)
    return r
