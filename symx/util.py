"""helpers shared by harnesses"""
from __future__ import annotations

import json
import os
import subprocess
import sys
import time

import z3

from . import core, backend
from .core import Engine, Abort, EngineError, SymInt, SymBool, SymArray, lift, mk

ROOT = os.path.dirname(os.path.dirname(os.path.abspath(__file__)))


class Box(dict):
    __getattr__ = dict.__getitem__
    __setattr__ = dict.__setitem__


def _merge_vals(pcs, vals):
    """value-level join of per-path results: ite over the (mutually exclusive) path conditions"""
    v0 = vals[0]
    if all(v is v0 for v in vals):
        return v0
    if isinstance(v0, SymArray):
        cells = []
        lists = [v.cells_list() for v in vals]
        for k in range(len(lists[0])):
            cells.append(_merge_vals(pcs, [l[k] for l in lists]))
        return SymArray(cells, v0.shape, name=v0.name, dtype=v0.dtype)
    if isinstance(v0, (list, tuple)):
        return type(v0)(_merge_vals(pcs, [v[k] for v in vals]) for k in range(len(v0)))
    if isinstance(v0, dict):
        return type(v0)({k: _merge_vals(pcs, [v[k] for v in vals]) for k in v0})
    if isinstance(v0, (bool, core.SymBool)) and all(isinstance(v, (bool, core.SymBool)) for v in vals):
        r = core.bexpr(vals[-1])
        for pc, v in zip(reversed(pcs[:-1]), reversed(vals[:-1])):
            r = z3.If(pc, core.bexpr(v), r)
        return core.mkb(r)
    if all(isinstance(v, (int, SymInt, core.SymBool)) or z3.is_expr(v) for v in vals):
        r = lift(vals[-1])
        for pc, v in zip(reversed(pcs[:-1]), reversed(vals[:-1])):
            r = z3.If(pc, lift(v), r)
        if z3.is_expr(v0):
            return z3.simplify(r)
        return mk(r)
    if all(v == v0 for v in vals):
        return v0
    raise EngineError(f"cannot join per-path values of type {type(v0)}")


def single_path(fn, timeout_ms=30000, max_paths=400):
    """Run fn(engine) on all of its paths (normally exactly one: the kernels are fully merged) and return
    (engine, box) where box is what fn returned; if the code forks, the per-path results are joined by ite
    over the path conditions, so callers always see one symbolic result.  Obligations met on the way are in
    engine.collected (guarded by their path condition)."""
    eng = Engine(timeout_ms=timeout_ms, max_paths=max_paths)
    per = []

    def wrapped(e):
        e.batch = True
        n0 = len(e.s.assertions())
        r = fn(e)
        coll = list(e.pending)
        e.pending = []
        asr = list(e.s.assertions())
        per.append((asr, r, coll))
    ok = eng.explore(wrapped)
    bad = {k: v for k, v in eng.aborts.items() if k not in ("infeasible",)}
    if not per or eng.work or bad or not eng.exhausted:
        raise EngineError(f"exploration incomplete: paths={eng.paths} pending={len(eng.work)} aborts={eng.aborts}")
    if len(per) == 1:
        eng.collected = per[0][2]
        eng.path_assumptions = per[0][0]
        return eng, per[0][1]
    # common prefix of assertions = the assumptions; the rest are the branch decisions
    k = 0
    while all(len(a) > k for a, _, _ in per) and all(a[k].eq(per[0][0][k]) for a, _, _ in per):
        k += 1
    pcs = [z3.And(*a[k:]) if len(a) > k else z3.BoolVal(True) for a, _, _ in per]
    eng.path_assumptions = per[0][0][:k]
    eng.collected = [(l, z3.Implies(pc, c)) for pc, (_, _, coll) in zip(pcs, per) for l, c in coll]
    box = _merge_vals(pcs, [r for _, r, _ in per])
    return eng, box


def obligations_formula(collected, prefix=None):
    sel = [c for l, c in collected if prefix is None or l.startswith(prefix)]
    return z3.And(*sel) if sel else z3.BoolVal(True)


def arr_from_model(model, name, shape, dtype="int64"):
    import numpy as np
    n = 1
    for d in shape:
        n *= d
    vals = [int(model.get(f"{name}_{k}", 0)) for k in range(n)]
    return np.array(vals, dtype=dtype).reshape(shape)


def qstats(results):
    q = {"unsat": 0, "sat": 0, "unknown": 0}
    t = 0.0
    for r in results:
        q[r.status] += 1
        t += r.seconds
    return q, round(t, 3)


def run_real_subprocess(code, env=None, timeout=300):
    """Run python code on the real (compiled) repository code in a fresh interpreter.  Returns
    (returncode, stdout, stderr)."""
    e = dict(os.environ)
    e.update(env or {})
    py = os.path.join(ROOT, ".venv", "bin", "python")
    p = subprocess.run([py, "-c", code], capture_output=True, text=True, env=e, timeout=timeout)
    return p.returncode, p.stdout, p.stderr


def z3_abs(e):
    return z3.If(e >= 0, e, -e)


def z3_max(*es):
    r = es[0]
    for e in es[1:]:
        r = z3.If(e > r, e, r)
    return r


def z3_min(*es):
    r = es[0]
    for e in es[1:]:
        r = z3.If(e < r, e, r)
    return r
