"""Exact integer model of `c + sqrt(x)` for rational x built from symbolic integers.

math.sqrt of a symbolic value cannot be given to the bit-vector back-end as a real; what the code under test does
with the root, however, is always one of: add a constant, truncate to an integer, compare with an integer.  Each of
these has an exact characterisation by squares (real-number semantics):

    sqrt(x) <  u   <=>  u > 0  and  x <  u*u          sqrt(x) >  u   <=>  u < 0  or  x >  u*u
    sqrt(x) <= u   <=>  u >= 0 and  x <= u*u          sqrt(x) >= u   <=>  u <= 0 or  x >= u*u
    sqrt(x) == u   <=>  u >= 0 and  x == u*u
    floor(c + sqrt(x)) = t   <=>   sqrt(x) >= t - c  and  sqrt(x) < t + 1 - c          (c + sqrt(x) >= 0)

x and u are kept as integer fractions (numerator term, positive integer denominator), so every constraint is a
polynomial inequality over integers.  IEEE rounding of the real sqrt/add is NOT modelled (stated in the harness)."""
from __future__ import annotations

import builtins
from fractions import Fraction

import z3

from . import core
from .core import SymInt, SymReal, SymBool, EngineError, mk, mkb, lift


def to_ratio(e):
    """(integer term, positive int denominator) of a z3 term that is a rational-coefficient polynomial over
    to_real(integer terms)"""
    if z3.is_int(e):
        return e, 1
    if z3.is_rational_value(e):
        return z3.IntVal(e.numerator_as_long()), e.denominator_as_long()
    k = e.decl().kind()
    ch = e.children()
    if k == z3.Z3_OP_TO_REAL:
        return ch[0], 1
    if k == z3.Z3_OP_UMINUS:
        n, d = to_ratio(ch[0])
        return -n, d
    if k in (z3.Z3_OP_ADD, z3.Z3_OP_SUB):
        parts = [to_ratio(c) for c in ch]
        den = 1
        for _, d in parts:
            den = den * d // _gcd(den, d)
        num = None
        for i, (n, d) in enumerate(parts):
            t = n * (den // d) if den // d != 1 else n
            if num is None:
                num = t
            else:
                num = (num + t) if (k == z3.Z3_OP_ADD) else (num - t)
        return num, den
    if k == z3.Z3_OP_MUL:
        num, den = z3.IntVal(1), 1
        first = True
        for c in ch:
            n, d = to_ratio(c)
            num = n if first else num * n
            first = False
            den *= d
        return num, den
    if k == z3.Z3_OP_DIV and z3.is_rational_value(ch[1]) and ch[1].numerator_as_long() != 0:
        n, d = to_ratio(ch[0])
        p, q = ch[1].numerator_as_long(), ch[1].denominator_as_long()
        if p < 0:
            p, q = -p, -q
        return n * q if q != 1 else n, d * p
    raise EngineError(f"sqrt argument is not a rational polynomial of integers: {e.sexpr()[:80]}")


def _gcd(a, b):
    while b:
        a, b = b, a % b
    return a


def _ratio_of(v):
    """value -> (int term, den)"""
    if isinstance(v, bool):
        v = builtins.int(v)
    if isinstance(v, builtins.int):
        return z3.IntVal(v), 1
    if isinstance(v, float):
        f = Fraction(v)
        return z3.IntVal(f.numerator), f.denominator
    if isinstance(v, Fraction):
        return z3.IntVal(v.numerator), v.denominator
    if isinstance(v, SymBool):
        v = v._i()
    if isinstance(v, SymInt):
        return v.e, 1
    if isinstance(v, SymReal) and not isinstance(v, QSqrt):
        return to_ratio(v.e)
    raise EngineError(f"cannot relate {type(v)} to a square root")


_CTR = [0]
ARGS = []                  # (A, numerator polynomial, denominator) per sqrt call of the current path; reset by the harness
TRUNC_MAX = [2 ** 40]      # linear upper bound given to the exploration solver for int(c + sqrt(x)); the harness states and checks it


class QSqrt(SymReal):
    """the real number c + sqrt(xn/xd) (c a constant fraction, xn an integer term, xd a positive integer)"""

    def __init__(self, xn, xd, c=Fraction(0)):
        self.xn, self.xd, self.c = xn, xd, c

    @property
    def e(self):
        raise EngineError("square-root value used outside the algebraic model (only +const, int(), comparisons are modelled)")

    # -- arithmetic with constants
    def _plus(self, o):
        if isinstance(o, (builtins.int, float, Fraction)) and not isinstance(o, bool):
            return QSqrt(self.xn, self.xd, self.c + Fraction(o))
        raise EngineError("only constants can be added to a symbolic square root")

    __add__ = __radd__ = _plus

    def __sub__(self, o):
        if isinstance(o, (builtins.int, float, Fraction)):
            return self._plus(-Fraction(o))
        raise EngineError("only constants can be subtracted from a symbolic square root")

    # -- comparisons: c + sqrt(x) ? v   <=>   sqrt(x) ? v - c
    def _u(self, v):
        n, d = _ratio_of(v)
        # u = n/d - c
        cn, cd = self.c.numerator, self.c.denominator
        un = n * cd - cn * d if cn else (n * cd if cd != 1 else n)
        return un, d * cd

    def _sq_cmp(self, v, op):
        un, ud = self._u(v)
        lhs = self.xn * (ud * ud)            # x * ud^2 * xd   (both sides multiplied by xd * ud^2 > 0)
        rhs = un * un * self.xd
        if op == "<":
            r = z3.And(un > 0, lhs < rhs)
        elif op == "<=":
            r = z3.And(un >= 0, lhs <= rhs)
        elif op == ">":
            r = z3.Or(un < 0, lhs > rhs)
        elif op == ">=":
            r = z3.Or(un <= 0, lhs >= rhs)
        elif op == "==":
            r = z3.And(un >= 0, lhs == rhs)
        else:
            r = z3.Not(z3.And(un >= 0, lhs == rhs))
        return mkb(r)

    def __lt__(self, o): return self._sq_cmp(o, "<")
    def __le__(self, o): return self._sq_cmp(o, "<=")
    def __gt__(self, o): return self._sq_cmp(o, ">")
    def __ge__(self, o): return self._sq_cmp(o, ">=")
    def __eq__(self, o): return self._sq_cmp(o, "==")
    def __ne__(self, o): return self._sq_cmp(o, "!=")
    __hash__ = None

    # -- truncation (value must be non-negative: c >= 0)
    def _sym_trunc(self):
        if self.c < 0:
            raise EngineError("int() of c + sqrt(x) with negative c is not modelled")
        _CTR[0] += 1
        t = mk(z3.Int(f"isqrt{_CTR[0]}"))
        lo = self._sq_cmp(t, ">=")                  # c + sqrt(x) >= t
        hi = self._sq_cmp(t + 1, "<")               # c + sqrt(x) <  t + 1
        core.ENG.assume_fast(z3.And(t.e >= 0, t.e <= TRUNC_MAX[0]))
        core.ENG.defer(z3.And(lo.e, hi.e))       # polynomial: kept out of the branch-feasibility solver
        return t


def s_sqrt(v):
    """math.sqrt inside transformed code"""
    if isinstance(v, (builtins.int, float)) and not isinstance(v, bool):
        import math
        return math.sqrt(v)
    if isinstance(v, QSqrt):
        raise EngineError("nested square roots are not modelled")
    n, d = _ratio_of(v)
    core.ENG.oblige(n >= 0, "sqrt of a non-negative value")
    # the argument is named by a fresh integer A (A/d is the argument); the polynomial it stands for is recorded in ARGS so that
    # a harness can prove "A is the intended polynomial" and "the root logic is right for every A" separately
    A = z3.Int(f"sqarg{len(ARGS)}")
    ARGS.append((A, n, d))
    core.ENG.assume_fast(A >= 0)
    return QSqrt(A, d)
