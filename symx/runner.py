"""Job runner, verdict logic, known findings, evidence.  DESIGN.md 3.4, 3.9-3.11."""
from __future__ import annotations

import hashlib
import json
import multiprocessing as mp
import os
import sys
import time
import traceback

ROOT = os.path.dirname(os.path.dirname(os.path.abspath(__file__)))
NPROC = int(os.environ.get("VERIF_NPROC", "16"))


class Job:
    def __init__(self, name, func, kwargs=None, clause="", timeout_s=600, weight=1, optional=False):
        self.optional = optional      # an inductive-step job that may be skipped on a structure mismatch (whole-run jobs decide the clause too)
        self.name = name
        self.func = func
        self.kwargs = kwargs or {}
        self.clause = clause
        self.timeout_s = timeout_s
        self.weight = weight


def held(**kw):
    d = dict(status="held")
    d.update(kw)
    return d


def violated(clause, site, what, witness, **kw):
    """Only for counterexamples that were replayed on the real code and reproduced."""
    d = dict(status="violated", clause=clause, site=site, what=what, witness=witness)
    d.update(kw)
    return d


def inconclusive(why, **kw):
    d = dict(status="inconclusive", why=why)
    d.update(kw)
    return d


def _child(job, conn):
    t0 = time.time()
    try:
        os.environ.setdefault("NUMBA_CACHE_DIR", os.path.join(ROOT, ".cache", "numba"))
        res = job.func(**job.kwargs)
        if not isinstance(res, dict) or "status" not in res:
            res = dict(status="inconclusive", why=f"job returned {type(res)}")
    except BaseException as ex:  # noqa
        from .core import StructureMismatch
        if isinstance(ex, StructureMismatch) and job.optional:
            res = dict(status="skipped", why=f"structure mismatch: {ex}")
        else:
            res = dict(status="inconclusive", why=f"{type(ex).__name__}: {ex}", traceback=traceback.format_exc()[-3000:])
    res.setdefault("clause", job.clause)
    res["job"] = job.name
    res["wall_s"] = round(time.time() - t0, 3)
    try:
        from . import xform, backend
        res.setdefault("functions", dict(xform.SOURCES))
        res.setdefault("xform_stats", dict(xform.STATS))
        res.setdefault("query_log", backend.QUERY_LOG[-40:])
    except Exception:
        pass
    try:
        conn.send(json.loads(json.dumps(res, default=str)))
    except Exception as ex:
        conn.send(dict(status="inconclusive", why=f"result not serialisable: {ex}", job=job.name, clause=job.clause))
    conn.close()


def run_jobs(jobs, nproc=NPROC, verbose=True):
    ctx = mp.get_context("fork")
    pending = list(jobs)
    pending.sort(key=lambda j: -j.weight)
    running = []
    results = []
    t_start = time.time()
    while pending or running:
        while pending and len(running) < nproc:
            j = pending.pop(0)
            pc, cc = ctx.Pipe(duplex=False)
            p = ctx.Process(target=_child, args=(j, cc), daemon=True)
            p.start()
            cc.close()
            running.append((j, p, pc, time.time()))
        time.sleep(0.02)
        still = []
        for j, p, pc, t0 in running:
            res = None
            if pc.poll():
                try:
                    res = pc.recv()
                except EOFError:
                    res = dict(status="inconclusive", why="worker died", job=j.name, clause=j.clause)
                p.join(5)
            elif not p.is_alive():
                if pc.poll():
                    res = pc.recv()
                else:
                    res = dict(status="inconclusive", why=f"worker exited with {p.exitcode}", job=j.name, clause=j.clause)
            elif time.time() - t0 > j.timeout_s:
                p.kill()
                p.join(5)
                res = dict(status="inconclusive", why=f"hard timeout {j.timeout_s}s", job=j.name, clause=j.clause,
                           wall_s=round(time.time() - t0, 1))
            if res is None:
                still.append((j, p, pc, t0))
            else:
                results.append(res)
                if verbose:
                    extra = res.get("why") or res.get("what") or res.get("summary") or ""
                    print(f"  [{time.time() - t_start:7.1f}s] {res['status']:12s} {j.name}  ({res.get('wall_s', '?')}s) {str(extra)[:160]}",
                          flush=True)
        running = still
    return results


def load_known():
    p = os.path.join(ROOT, "known_findings.json")
    if not os.path.exists(p):
        return []
    return json.load(open(p))


def match_known(prop, res, known):
    for k in known:
        if k.get("property") == prop and k.get("status") == "open" and k.get("clause") == res.get("clause") \
                and k.get("site") == res.get("site"):
            return k
    return None


def finish(prop, tier, results, t0, bounds, outside, assumptions, stubs, level="model_checking", extra=None):
    """Writes evidence, prints verdict lines, returns exit code."""
    known = load_known()
    seed = int(os.environ.get("VERIF_SEED", "0") or 0)
    viol, knownseen, inconc = [], [], []
    for r in results:
        if r["status"] == "violated":
            k = match_known(prop, r, known)
            if k is not None:
                knownseen.append((k, r))
            else:
                viol.append(r)
        elif r["status"] == "inconclusive":
            inconc.append(r)
    # optional step jobs that do not fit the current shape of the code: skipped, provided a held job decides the same clause
    held_clauses = {r.get("clause") for r in results if r["status"] == "held"}
    for r in results:
        if r["status"] == "skipped":
            if r.get("clause") in held_clauses:
                print(f"SKIPPED property={prop} job={r.get('job')} why={str(r.get('why'))[:200]}")
            else:
                r["status"] = "inconclusive"
                r["why"] = "skipped and no other job decides this clause: " + str(r.get("why"))
                inconc.append(r)
    os.makedirs(os.path.join(ROOT, "replays"), exist_ok=True)
    for k, r in knownseen:
        print(f"KNOWN-FINDING: property={prop} {k.get('what', r.get('what'))}")
    for r in viol:
        blob = json.dumps(dict(property=prop, clause=r.get("clause"), site=r.get("site"), what=r.get("what"),
                               witness=r.get("witness"), job=r.get("job")), indent=1, sort_keys=True, default=str)
        h = hashlib.sha256(blob.encode()).hexdigest()[:10]
        path = os.path.join(ROOT, "replays", f"{prop}-{h}.json")
        with open(path, "w") as f:
            f.write(blob)
        print(f"VIOLATION property={prop} replay={path}")
        print(f"  clause: {r.get('clause')}  site: {r.get('site')}\n  {r.get('what')}")
    for r in inconc:
        print(f"INCONCLUSIVE property={prop} job={r.get('job')} why={str(r.get('why'))[:300]}")
        if r.get("traceback"):
            print(r["traceback"])

    # ---- evidence
    paths = sum(int(r.get("paths", 0) or 0) for r in results)
    q = {"unsat": 0, "sat": 0, "unknown": 0}
    solver_s = 0.0
    for r in results:
        for k in q:
            q[k] += int((r.get("queries") or {}).get(k, 0) or 0)
        solver_s += float(r.get("solver_s", 0) or 0)
    nq = sum(q.values())
    functions = {}
    for r in results:
        functions.update(r.get("functions") or {})
    samples = []
    for r in results:
        if r.get("sample") is not None and len(samples) < 8:
            samples.append(dict(job=r.get("job"), sample=r.get("sample")))
    if not samples:
        samples = [dict(job=r.get("job"), status=r.get("status"), summary=r.get("summary")) for r in results[:4]]
    distinct = len({(r.get("job"), r.get("clause")) for r in results if (r.get("paths") or sum((r.get("queries") or {}).values()))})
    ev = dict(
        property_id=prop, tier=tier, seed=seed, level=level,
        coverage=dict(
            states=max(paths, 1), transitions=max(nq, 1),
            traces_validated_against_impl=sum(int(r.get("validated", 0) or 0) for r in results),
            samples=samples,
            evaluations=max(nq + paths, 1),
            distinct_nontrivial=max(distinct, 0),
            rule="one evaluation = one explored path or one discharged solver query; distinct_nontrivial counts jobs "
                 "(named symbolic harness instances with different parameters) that explored at least one path or "
                 "discharged at least one solver query",
            exhaustive=False,
            explanation="bounded symbolic execution of the working tree's source; within the stated bounds each job is "
                        "exhaustive over all values (solver verdict), outside them nothing is claimed",
            functions_encoded=functions,
            bounds=bounds, outside_claim=outside,
            queries=q, solver_time_s=round(solver_s, 2),
            jobs=[dict(job=r.get("job"), clause=r.get("clause"), status=r.get("status"), paths=r.get("paths"),
                       queries=r.get("queries"), solver_s=r.get("solver_s"), wall_s=r.get("wall_s"),
                       summary=r.get("summary"), vacuity=r.get("vacuity"), why=r.get("why"),
                       backend=r.get("backend")) for r in results],
            stubs=stubs,
            known_findings_seen=[k.get("id") or k.get("what") for k, _ in knownseen],
            skipped_jobs=[dict(job=r.get("job"), why=r.get("why")) for r in results if r["status"] == "skipped"],
        ),
        assumptions=assumptions,
        wall_s=round(time.time() - t0, 2),
        violations=len(viol),
    )
    if extra:
        ev["coverage"].update(extra)
    # VERIF_EVIDENCE_DIR: development runs against a scratch tree (tools/mutwt.sh) must not overwrite the evidence of /repo
    evdir = os.environ.get("VERIF_EVIDENCE_DIR") or os.path.join(ROOT, "evidence")
    os.makedirs(evdir, exist_ok=True)
    with open(os.path.join(evdir, f"{prop}.json"), "w") as f:
        json.dump(ev, f, indent=1, default=str)
    n_held = sum(1 for r in results if r["status"] == "held")
    print(f"{prop} {tier}: jobs={len(results)} held={n_held} known={len(knownseen)} violations={len(viol)} "
          f"inconclusive={len(inconc)} paths={paths} queries={q} solver_s={solver_s:.1f} wall_s={time.time() - t0:.1f}")
    if viol:
        return 1
    if inconc:
        return 2
    return 0
