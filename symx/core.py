"""symx core: proxy values + decision-prefix path exploration over z3.

The real Python source of the repository is executed natively by CPython on the
proxy values defined here.  See DESIGN.md section 3.
"""
from __future__ import annotations

import builtins
import itertools
import time
from fractions import Fraction

import z3


class Abort(BaseException):
    """Ends the current path (infeasible, assumption false, violation found)."""


class EngineError(Exception):
    """The proxies cannot represent what the code did: harness error, never a verdict."""


class StructureMismatch(EngineError):
    """A harness that cuts the real function into pieces (inductive steps) does not find the statements / variable names it
    was written for - e.g. after a refactoring.  Jobs marked `optional` are then SKIPPED (reported, not a verdict) as long
    as another job decides the same clause on whole runs."""


class Violation:
    def __init__(self, label, model, path):
        self.label = label
        self.model = model
        self.path = path


# --------------------------------------------------------------------------- engine state
ENG: "Engine | None" = None
GUARDS: list = []


def cur_guard():
    if not GUARDS:
        return None
    return z3.And(*GUARDS) if len(GUARDS) > 1 else GUARDS[0]


class _G:
    __slots__ = ("c",)

    def __init__(self, c):
        self.c = c

    def __enter__(self):
        GUARDS.append(self.c)

    def __exit__(self, *a):
        GUARDS.pop()


def guard(c):
    return _G(c)


class Engine:
    """Depth-first exploration of all feasible paths of a harness function."""

    def __init__(self, timeout_ms=60000, max_paths=10 ** 9, deadline=None, stop_on_violation=True):
        self.s = z3.Solver()
        self.s.set("timeout", timeout_ms)
        self.timeout_ms = timeout_ms
        self.prefix = []
        self.trace = []
        self.work = []
        self.n_checks = 0
        self.n_sat = 0
        self.n_unsat = 0
        self.t_solver = 0.0
        self.paths = 0
        self.completed = 0
        self.violations = []
        self.obligs = 0
        self.unknown = 0
        self.aborts = {}
        self.pending = []
        self.batch = True
        self.last_model = None
        self.max_paths = max_paths
        self.deadline = deadline
        self.stop_on_violation = stop_on_violation
        self.exhausted = False
        self.errors = []
        self.outcomes = {}
        self.deferred = []
        self.prefer = []          # optional constraints tried (in order) to get a small / replayable counterexample

    # -- solver
    def _check(self, *extra):
        t = time.time()
        self.n_checks += 1
        r = self.s.check(*extra)
        self.t_solver += time.time() - t
        if r == z3.unknown:
            self.unknown += 1
        elif r == z3.sat:
            self.n_sat += 1
        else:
            self.n_unsat += 1
        return r

    def branch(self, cond):
        cond = z3.simplify(cond)
        if z3.is_true(cond):
            return True
        if z3.is_false(cond):
            return False
        if GUARDS:
            raise EngineError("fork inside a merged region (guard stack not empty): " + str(cond)[:200])
        k = len(self.trace)
        if k < len(self.prefix):
            d = self.prefix[k]
            if not isinstance(d, bool):
                raise EngineError("trace mismatch (bool expected)")
            self.trace.append(d)
            self.s.add(cond if d else z3.Not(cond))
            self.last_model = None
            return d
        m = self.last_model
        rt = rf = None
        if m is not None:
            v = m.eval(cond, model_completion=True)
            if z3.is_true(v):
                rt = z3.sat
            elif z3.is_false(v):
                rf = z3.sat
        if rt is None:
            rt = self._check(cond)
            if rt == z3.sat:
                self.last_model = self.s.model()
        if rf is None:
            rf = self._check(z3.Not(cond))
            if rf == z3.sat and rt != z3.sat:
                self.last_model = self.s.model()
        if rt == z3.unknown or rf == z3.unknown:
            raise Abort("unknown")
        if rt == z3.sat and rf == z3.sat:
            self.work.append(self.trace + [False])
            self.trace.append(True)
            self.s.add(cond)
            if self.last_model is not None and not z3.is_true(self.last_model.eval(cond, model_completion=True)):
                self.last_model = None
            return True
        if rt == z3.sat:
            self.trace.append(True)
            self.s.add(cond)
            return True
        if rf == z3.sat:
            self.trace.append(False)
            self.s.add(z3.Not(cond))
            return False
        raise Abort("infeasible")

    def concretise(self, e):
        e = z3.simplify(e)
        if z3.is_int_value(e):
            return e.as_long()
        if GUARDS:
            raise EngineError("concretisation inside a merged region: " + str(e)[:200])
        k = len(self.trace)
        excl = []
        if k < len(self.prefix):
            ent = self.prefix[k]
            if isinstance(ent, bool):
                raise EngineError("trace mismatch (pick expected)")
            if ent[0] == "pick":
                self.trace.append(ent)
                self.s.add(e == ent[1])
                self.last_model = None
                return ent[1]
            excl = list(ent[1])
            for v in excl:
                self.s.add(e != v)
        r = self._check()
        if r == z3.unknown:
            raise Abort("unknown")
        if r != z3.sat:
            raise Abort("concretise: no more values")
        self.last_model = self.s.model()
        v = self.last_model.eval(e, model_completion=True).as_long()
        # push the sibling only if another value exists (saves re-executing the prefix for nothing)
        r2 = self._check(e != v)
        if r2 == z3.unknown:
            raise Abort("unknown")
        if r2 == z3.sat:
            self.work.append(self.trace + [("excl", excl + [v])])
        self.trace.append(("pick", v))
        self.s.add(e == v)
        return v

    def assume(self, cond):
        if isinstance(cond, SymBool):
            cond = cond.e
        if isinstance(cond, bool):
            if not cond:
                raise Abort("assume false")
            return
        self.s.add(cond)
        r = self._check()
        if r == z3.unknown:
            raise Abort("unknown")
        if r != z3.sat:
            raise Abort("assume infeasible")
        self.last_model = self.s.model()

    def defer(self, cond):
        """a defining constraint that is kept OUT of the exploration solver (e.g. nonlinear integer facts that would make every
        branch query hard): path feasibility is over-approximated; the harness must add `deferred` to its final queries"""
        if isinstance(cond, SymBool):
            cond = cond.e
        self.deferred.append(cond)

    def assume_fast(self, cond):
        """assume without a satisfiability check (checked lazily by later branches)"""
        if isinstance(cond, SymBool):
            cond = cond.e
        if isinstance(cond, bool):
            if not cond:
                raise Abort("assume false")
            return
        self.s.add(cond)
        self.last_model = None

    def oblige(self, cond, label, now=False):
        """cond must hold for all inputs that reach this point of this path."""
        self.obligs += 1
        if isinstance(cond, SymBool):
            cond = cond.e
        g = cur_guard()
        if g is not None:
            cond = z3.Implies(g, cond if not isinstance(cond, bool) else z3.BoolVal(cond))
        if isinstance(cond, bool):
            if not cond and self.batch and not now:
                self.pending.append((label, z3.BoolVal(False)))     # decided with the other obligations of the path
                return
            if not cond:
                r = self._check()
                if r == z3.sat:
                    self.violations.append(Violation(label, self._witness_model(z3.BoolVal(True)), list(self.trace)))
                    raise Abort("violated")
                if r == z3.unknown:
                    raise Abort("unknown")
                raise Abort("infeasible")
            return
        cond = z3.simplify(cond)
        if z3.is_true(cond):
            return
        if self.batch and not now:
            self.pending.append((label, cond))
            return
        self.flush()
        r = self._check(z3.Not(cond))
        if r == z3.sat:
            self.violations.append(Violation(label, self._witness_model(z3.Not(cond)), list(self.trace)))
            raise Abort("violated")
        if r == z3.unknown:
            raise Abort("unknown")
        self.s.add(cond)

    def _witness_model(self, neg):
        """model of the violated obligation, preferring one that satisfies an entry of self.prefer"""
        m = self.s.model()
        for extra in self.prefer:
            if self._check(neg, extra) == z3.sat:
                return self.s.model()
        return m

    def flush(self):
        if not self.pending:
            return
        pend, self.pending = self.pending, []
        allc = z3.And(*[c for _, c in pend])
        r = self._check(z3.Not(allc))
        if r == z3.sat:
            m = self._witness_model(z3.Not(allc))
            for l, c in pend:
                if z3.is_false(m.eval(c, model_completion=True)):
                    self.violations.append(Violation(l, m, list(self.trace)))
                    break
            else:
                self.violations.append(Violation("pending?", m, list(self.trace)))
            raise Abort("violated")
        if r == z3.unknown:
            raise Abort("unknown")
        self.s.add(allc)

    def is_feasible(self):
        return self._check() == z3.sat

    def explore(self, fn, worklist=None):
        """Run fn(engine) on every feasible path.  Returns True iff exploration was exhaustive
        and conclusive (no unknown, no budget stop)."""
        global ENG
        ENG = self
        self.work = [[]] if worklist is None else list(worklist)
        while self.work:
            if self.paths >= self.max_paths or (self.deadline and time.time() > self.deadline):
                self.aborts["budget"] = self.aborts.get("budget", 0) + 1
                return False
            self.prefix = self.work.pop()
            self.trace = []
            self.s.push()
            self.pending = []
            self.deferred = []
            self.last_model = None
            del GUARDS[:]
            try:
                out = fn(self)
                self.flush()
                self.completed += 1
                if out is not None:
                    self.outcomes[out] = self.outcomes.get(out, 0) + 1
            except Abort as a:
                self.aborts[str(a)] = self.aborts.get(str(a), 0) + 1
            finally:
                self.s.pop()
                del GUARDS[:]
            self.paths += 1
            if self.violations and self.stop_on_violation:
                return False
        self.exhausted = True
        return self.unknown == 0 and not self.aborts.get("unknown")

    def split(self, fn, want):
        """Explore breadth-first until the work list holds at least `want` prefixes; return them
        (paths completed on the way are counted in this engine)."""
        global ENG
        ENG = self
        self.work = [[]]
        while self.work and len(self.work) < want:
            self.work.sort(key=len)
            self.prefix = self.work.pop(0)
            self.trace = []
            self.s.push()
            self.pending = []
            self.last_model = None
            del GUARDS[:]
            try:
                fn(self)
                self.flush()
                self.completed += 1
            except Abort as a:
                self.aborts[str(a)] = self.aborts.get(str(a), 0) + 1
            finally:
                self.s.pop()
                del GUARDS[:]
            self.paths += 1
            if self.violations:
                break
        return list(self.work)

    def stats(self):
        return dict(paths=self.paths, completed=self.completed, checks=self.n_checks, sat=self.n_sat,
                    unsat=self.n_unsat, unknown=self.unknown, solver_s=round(self.t_solver, 3),
                    obligations=self.obligs, aborts=dict(self.aborts), exhausted=self.exhausted,
                    outcomes={str(k): v for k, v in self.outcomes.items()})


# --------------------------------------------------------------------------- values
_INT = z3.IntSort()
_REAL = z3.RealSort()


def is_sym(v):
    return isinstance(v, (SymInt, SymBool, SymReal))


def lift(v):
    """python / proxy number -> z3 arithmetic term"""
    if isinstance(v, NpInt):
        return lift(v.v)
    if isinstance(v, (SymInt, SymReal)):
        return v.e
    if isinstance(v, SymBool):
        return z3.If(v.e, z3.IntVal(1), z3.IntVal(0))
    if isinstance(v, (bool,)):
        return z3.IntVal(int(v))
    if isinstance(v, builtins.int):
        return z3.IntVal(v)
    if isinstance(v, float):
        if v != v or v in (float("inf"), float("-inf")):
            raise EngineError("non-finite float constant in real arithmetic")
        return z3.RealVal(Fraction(v).limit_denominator(10 ** 30) if False else Fraction(v))
    if isinstance(v, Fraction):
        return z3.RealVal(v)
    if hasattr(v, "__index__") and not isinstance(v, (SymArray,)):
        return z3.IntVal(v.__index__())  # numpy integer scalars
    if hasattr(v, "__float__"):
        return z3.RealVal(Fraction(float(v)))
    if z3.is_expr(v):
        return v
    raise TypeError(f"cannot lift {type(v)}")


def _coerce(a, b):
    if a.sort() == b.sort():
        return a, b
    if a.sort() == _INT and b.sort() == _REAL:
        return z3.ToReal(a), b
    if a.sort() == _REAL and b.sort() == _INT:
        return a, z3.ToReal(b)
    raise EngineError("sort mismatch")


def mk(e):
    e = z3.simplify(e)
    if e.sort() == _INT:
        if z3.is_int_value(e):
            return e.as_long()
        return SymInt(e)
    if e.sort() == _REAL:
        return SymReal(e)
    if e.sort() == z3.BoolSort():
        return mkb(e)
    raise EngineError("unsupported sort " + str(e.sort()))


def mkb(e):
    e = z3.simplify(e)
    if z3.is_true(e):
        return True
    if z3.is_false(e):
        return False
    return SymBool(e)


def bexpr(b):
    if isinstance(b, SymBool):
        return b.e
    if isinstance(b, (SymInt, SymReal)):
        return b.e != 0
    if z3.is_expr(b):
        return b
    return z3.BoolVal(bool(b))


def _num_ok(o):
    if hasattr(o, "_sq_cmp"):       # algebraic square-root values do their own (reflected) arithmetic and comparisons
        return False
    return isinstance(o, (SymInt, SymBool, SymReal, NpInt, builtins.int, float, Fraction)) or (
        hasattr(o, "__index__") and not isinstance(o, SymArray)) or (
        hasattr(o, "dtype") and getattr(o, "shape", None) == ())


NUMPY_SCALARS = False     # opt-in: reads from integer arrays in PLAIN PYTHON code yield numpy scalars of the array dtype


class NpInt:
    """A numpy integer scalar read from an array in plain (non-numba) Python code.  numpy keeps the array's dtype for
    scalar-scalar arithmetic and wraps silently on overflow, so every such operation carries the obligation that the
    result fits the dtype (int() / comparisons unwrap to the exact integer)."""
    __slots__ = ("v", "dt")

    def __init__(self, v, dt):
        self.v, self.dt = v, dt

    def _op(self, o, f, name):
        if isinstance(o, NpInt):
            r = f(self.v, o.v)
            lo = max(self.dt.lo, o.dt.lo) if not (z3.is_expr(self.dt.lo) or z3.is_expr(o.dt.lo)) else self.dt.lo
            hi = min(self.dt.hi, o.dt.hi) if not (z3.is_expr(self.dt.hi) or z3.is_expr(o.dt.hi)) else self.dt.hi
            if is_sym(r) or z3.is_expr(lo) or z3.is_expr(hi):
                ENG.oblige(z3.And(lift(r) >= lo, lift(r) <= hi), f"numpy scalar arithmetic stays inside the array dtype ({name} of two {self.dt.name} scalars in Python code)")
            elif not (lo <= r <= hi):
                ENG.oblige(False, f"numpy scalar arithmetic stays inside the array dtype ({name}) value={r}")
            return NpInt(r, self.dt)
        return f(self.v, o)

    def __mul__(self, o): return self._op(o, lambda a, b: a * b, "product")
    def __rmul__(self, o): return o * self.v
    def __add__(self, o): return self._op(o, lambda a, b: a + b, "sum")
    def __radd__(self, o): return o + self.v
    def __sub__(self, o): return self._op(o, lambda a, b: a - b, "difference")
    def __rsub__(self, o): return o - self.v
    def __neg__(self): return -self.v
    def __floordiv__(self, o): return self.v // (o.v if isinstance(o, NpInt) else o)
    def __mod__(self, o): return self.v % (o.v if isinstance(o, NpInt) else o)
    def __lt__(self, o): return self.v < (o.v if isinstance(o, NpInt) else o)
    def __le__(self, o): return self.v <= (o.v if isinstance(o, NpInt) else o)
    def __gt__(self, o): return self.v > (o.v if isinstance(o, NpInt) else o)
    def __ge__(self, o): return self.v >= (o.v if isinstance(o, NpInt) else o)
    def __eq__(self, o): return self.v == (o.v if isinstance(o, NpInt) else o)
    def __ne__(self, o): return self.v != (o.v if isinstance(o, NpInt) else o)
    def __hash__(self): return hash(self.v)
    def __index__(self): return self.v.__index__()
    def __bool__(self): return bool(self.v != 0)
    def __abs__(self): return abs(self.v)
    def __str__(self): return str(self.v)
    def __format__(self, spec): return format(self.v, spec)
    def __repr__(self): return f"np({self.v!r})"


class SymBool:
    __slots__ = ("e",)

    def __init__(self, e):
        self.e = e

    def __bool__(self):
        return ENG.branch(self.e)

    def __and__(self, o):
        if isinstance(o, (bool, SymBool)):
            return mkb(z3.And(self.e, bexpr(o)))
        return NotImplemented
    __rand__ = __and__

    def __or__(self, o):
        if isinstance(o, (bool, SymBool)):
            return mkb(z3.Or(self.e, bexpr(o)))
        return NotImplemented
    __ror__ = __or__

    def __xor__(self, o):
        if isinstance(o, (bool, SymBool)):
            return mkb(z3.Xor(self.e, bexpr(o)))
        return NotImplemented
    __rxor__ = __xor__

    def __invert__(self):
        raise EngineError("~ on symbolic bool")

    def __eq__(self, o):
        if isinstance(o, (bool, SymBool)):
            return mkb(self.e == bexpr(o))
        if _num_ok(o):
            return s_int(self) == o
        return NotImplemented

    def __ne__(self, o):
        if isinstance(o, (bool, SymBool)):
            return mkb(self.e != bexpr(o))
        if _num_ok(o):
            return s_int(self) != o
        return NotImplemented

    def __hash__(self):
        return hash(bool(self))

    def __index__(self):
        return 1 if bool(self) else 0

    def __int__(self):
        raise EngineError("int() on symbolic bool through an unshadowed path")

    def _i(self):
        return mk(z3.If(self.e, z3.IntVal(1), z3.IntVal(0)))

    def __add__(self, o): return self._i() + o
    def __radd__(self, o): return o + self._i()
    def __sub__(self, o): return self._i() - o
    def __rsub__(self, o): return o - self._i()
    def __mul__(self, o): return self._i() * o
    def __rmul__(self, o): return o * self._i()
    def __lt__(self, o): return self._i() < o
    def __le__(self, o): return self._i() <= o
    def __gt__(self, o): return self._i() > o
    def __ge__(self, o): return self._i() >= o
    def __neg__(self): return -self._i()

    def __repr__(self):
        return "<symbool>"


def _pyfloordiv(a, d):
    # python floor division; z3 integer div is euclidean (floor for d>0, ceil for d<0)
    if z3.is_int_value(d):
        dv = d.as_long()
        if dv > 0:
            return a / d
        if dv < 0:
            return (-a) / (-d)
        raise ZeroDivisionError
    return z3.If(d > 0, a / d, (-a) / (-d))


def _pymod(a, d):
    if z3.is_int_value(d):
        dv = d.as_long()
        if dv > 0:
            return a % d
        if dv < 0:
            return -((-a) % (-d))
        raise ZeroDivisionError
    return z3.If(d > 0, a % d, -((-a) % (-d)))


class SymInt:
    __slots__ = ("e",)

    def __init__(self, e):
        self.e = e

    def _bin(self, o, f, rev=False):
        if not _num_ok(o):
            return NotImplemented
        a, b = _coerce(self.e, lift(o))
        return mk(f(b, a) if rev else f(a, b))

    def __add__(self, o): return self._bin(o, lambda a, b: a + b)
    def __radd__(self, o): return self._bin(o, lambda a, b: a + b, True)
    def __sub__(self, o): return self._bin(o, lambda a, b: a - b)
    def __rsub__(self, o): return self._bin(o, lambda a, b: a - b, True)
    def __mul__(self, o): return self._bin(o, lambda a, b: a * b)
    def __rmul__(self, o): return self._bin(o, lambda a, b: a * b, True)

    def __truediv__(self, o):
        if not _num_ok(o):
            return NotImplemented
        return mk(z3.ToReal(self.e) / _coerce(z3.ToReal(self.e), lift(o))[1])

    def __rtruediv__(self, o):
        if not _num_ok(o):
            return NotImplemented
        return mk(_coerce(z3.ToReal(self.e), lift(o))[1] / z3.ToReal(self.e))

    def __neg__(self): return mk(-self.e)
    def __pos__(self): return self

    def __floordiv__(self, o):
        if not _num_ok(o) or isinstance(o, (float, SymReal)):
            return NotImplemented
        d = lift(o)
        _div_guard(d)
        return mk(_pyfloordiv(self.e, d))

    def __rfloordiv__(self, o):
        if not _num_ok(o) or isinstance(o, (float, SymReal)):
            return NotImplemented
        _div_guard(self.e)
        return mk(_pyfloordiv(lift(o), self.e))

    def __mod__(self, o):
        if not _num_ok(o) or isinstance(o, (float, SymReal)):
            return NotImplemented
        d = lift(o)
        _div_guard(d)
        return mk(_pymod(self.e, d))

    def __rmod__(self, o):
        if not _num_ok(o) or isinstance(o, (float, SymReal)):
            return NotImplemented
        _div_guard(self.e)
        return mk(_pymod(lift(o), self.e))

    def __divmod__(self, o):
        return self // o, self % o

    def __pow__(self, o):
        if isinstance(o, builtins.int) and 0 <= o <= 8:
            r = 1
            for _ in range(o):
                r = r * self
            return r
        raise EngineError("symbolic power")

    def _cmp(self, o, f):
        if not _num_ok(o):
            return NotImplemented
        a, b = _coerce(self.e, lift(o))
        return mkb(f(a, b))

    def __lt__(self, o): return self._cmp(o, lambda a, b: a < b)
    def __le__(self, o): return self._cmp(o, lambda a, b: a <= b)
    def __gt__(self, o): return self._cmp(o, lambda a, b: a > b)
    def __ge__(self, o): return self._cmp(o, lambda a, b: a >= b)

    def __eq__(self, o):
        if o is None or isinstance(o, str):
            return False
        return self._cmp(o, lambda a, b: a == b)

    def __ne__(self, o):
        if o is None or isinstance(o, str):
            return True
        return self._cmp(o, lambda a, b: a != b)

    def __hash__(self):
        return hash(ENG.concretise(self.e))

    def __bool__(self):
        return ENG.branch(self.e != 0)

    def __index__(self):
        return ENG.concretise(self.e)

    def __int__(self):
        raise EngineError("int() on a symbolic integer through an unshadowed path")

    def __float__(self):
        raise EngineError("float() on a symbolic integer through an unshadowed path")

    def __abs__(self):
        return mk(z3.If(self.e >= 0, self.e, -self.e))

    def __format__(self, spec):
        # the text of a symbolic integer is an opaque atom (see AtomStr); format specs are not modelled
        if spec not in ("", "d"):
            raise EngineError(f"format spec {spec!r} on a symbolic integer")
        return AtomStr(self)

    def __repr__(self):
        return "<sym>"

    def __str__(self):
        return AtomStr(self)


def _div_guard(d):
    """division by zero is an error outcome; oblige that it cannot happen"""
    if z3.is_int_value(d):
        if d.as_long() == 0:
            raise ZeroDivisionError
        return
    ENG.oblige(d != 0, "division by zero")


class SymReal:
    """Real-arithmetic stand-in for floats; used only where the harness says so (C16)."""
    __slots__ = ("e",)

    def __init__(self, e):
        self.e = e

    def _bin(self, o, f, rev=False):
        if not _num_ok(o):
            return NotImplemented
        a, b = _coerce(self.e, lift(o))
        return SymReal(z3.simplify(f(b, a) if rev else f(a, b)))

    def __add__(self, o): return self._bin(o, lambda a, b: a + b)
    def __radd__(self, o): return self._bin(o, lambda a, b: a + b, True)
    def __sub__(self, o): return self._bin(o, lambda a, b: a - b)
    def __rsub__(self, o): return self._bin(o, lambda a, b: a - b, True)
    def __mul__(self, o): return self._bin(o, lambda a, b: a * b)
    def __rmul__(self, o): return self._bin(o, lambda a, b: a * b, True)
    def __truediv__(self, o): return self._bin(o, lambda a, b: a / b)
    def __rtruediv__(self, o): return self._bin(o, lambda a, b: a / b, True)
    def __neg__(self): return SymReal(z3.simplify(-self.e))
    def __pos__(self): return self

    def __pow__(self, o):
        if isinstance(o, float) and o == builtins.int(o):
            o = builtins.int(o)
        if isinstance(o, builtins.int) and 0 <= o <= 8:
            r = 1
            for _ in range(o):
                r = r * self
            return r
        raise EngineError("symbolic real power")

    def _cmp(self, o, f):
        if not _num_ok(o):
            return NotImplemented
        a, b = _coerce(self.e, lift(o))
        return mkb(f(a, b))

    def __lt__(self, o): return self._cmp(o, lambda a, b: a < b)
    def __le__(self, o): return self._cmp(o, lambda a, b: a <= b)
    def __gt__(self, o): return self._cmp(o, lambda a, b: a > b)
    def __ge__(self, o): return self._cmp(o, lambda a, b: a >= b)
    def __eq__(self, o): return self._cmp(o, lambda a, b: a == b)
    def __ne__(self, o): return self._cmp(o, lambda a, b: a != b)
    __hash__ = None

    def __bool__(self):
        return ENG.branch(self.e != 0)

    def __abs__(self):
        return SymReal(z3.simplify(z3.If(self.e >= 0, self.e, -self.e)))

    def __float__(self):
        raise EngineError("float() on symbolic real")

    def __repr__(self):
        return "<symreal>"


def s_int(v=0, *a):
    if isinstance(v, NpInt):
        return v.v
    if isinstance(v, SymInt):
        return v
    if isinstance(v, SymBool):
        return v._i()
    if hasattr(v, "_sym_trunc"):
        return v._sym_trunc()
    if isinstance(v, SymReal):
        # truncation toward zero of a real: fresh integer q with the defining inequalities
        global _INTREAL
        _INTREAL += 1
        q = z3.Int(f"trunc{_INTREAL}")
        ENG.assume_fast(z3.If(v.e >= 0, z3.And(z3.ToReal(q) <= v.e, v.e < z3.ToReal(q) + 1), z3.And(z3.ToReal(q) >= v.e, v.e > z3.ToReal(q) - 1)))
        return mk(q)
    if isinstance(v, AtomStr):
        return v.value
    return builtins.int(v, *a)


_INTREAL = 0


def s_round(v, nd=None):
    """round() of a symbolic real to the nearest integer (ties unconstrained between the two neighbours)"""
    if isinstance(v, SymReal) and nd is None:
        global _INTREAL
        _INTREAL += 1
        q = z3.Int(f"round{_INTREAL}")
        ENG.assume_fast(z3.And(z3.ToReal(q) - v.e <= z3.RealVal("1/2"), v.e - z3.ToReal(q) <= z3.RealVal("1/2")))
        return mk(q)
    return builtins.round(v) if nd is None else builtins.round(v, nd)


def s_bool(v=False):
    if isinstance(v, SymBool):
        return v
    if isinstance(v, (SymInt, SymReal)):
        return mkb(v.e != 0)
    return builtins.bool(v)


def s_float(v=0.0):
    if isinstance(v, (SymInt, SymBool)):
        return SymReal(z3.ToReal(lift(v)))
    if isinstance(v, SymReal):
        return v
    if isinstance(v, builtins.str) and v.strip() in REG_ATOMS:      # text of a symbolic number
        return s_float(REG_ATOMS[v.strip()].value)
    return builtins.float(v)


def _fold(a, pick):
    if len(a) == 1 and not _num_ok(a[0]):
        a = list(a[0].cells_list() if isinstance(a[0], SymArray) else a[0])
    r = a[0]
    for b in a[1:]:
        if is_sym(r) or is_sym(b):
            x, y = _coerce(lift(b), lift(r))
            r = mk(z3.If(pick(x, y), x, y))
        else:
            r = b if pick(b, r) else r
    return r


def s_min(*a, **kw):
    if kw:
        return builtins.min(*a, **kw)
    return _fold(a, lambda x, y: x < y)


def s_max(*a, **kw):
    if kw:
        return builtins.max(*a, **kw)
    return _fold(a, lambda x, y: x > y)


def s_abs(a):
    return abs(a)


def s_sum(it, start=0):
    r = start
    for v in (it.cells_list() if isinstance(it, SymArray) else it):
        r = r + v
    return r


def s_len(a):
    return builtins.len(a)


class _IntMeta(type):
    def __instancecheck__(cls, obj):
        return isinstance(obj, (builtins.int, SymInt))

    def __subclasscheck__(cls, sub):
        return issubclass(sub, (builtins.int, SymInt))

    def __call__(cls, *a):
        return s_int(*a)

    def __or__(cls, other):
        return builtins.int | other

    def __ror__(cls, other):
        return other | builtins.int

    def __eq__(cls, other):
        return other is builtins.int or other is cls

    def __hash__(cls):
        return hash(builtins.int)


class SInt(builtins.int, metaclass=_IntMeta):
    """shadow of the builtin `int` inside transformed code"""


class _BoolMeta(type):
    def __instancecheck__(cls, obj):
        return isinstance(obj, (builtins.bool, SymBool))

    def __call__(cls, *a):
        return s_bool(*a)


class SBool(metaclass=_BoolMeta):
    """shadow of the builtin `bool` inside transformed code"""


class _FloatMeta(type):
    def __instancecheck__(cls, obj):
        return isinstance(obj, (builtins.float, SymReal))

    def __call__(cls, *a):
        return s_float(*a)


class SFloat(metaclass=_FloatMeta):
    """shadow of the builtin `float` inside transformed code"""


def s_isinstance(obj, cls):
    """isinstance that treats proxies as their Python counterparts"""
    def one(c):
        if c is builtins.int:
            return isinstance(obj, (builtins.int, SymInt))
        if c is builtins.bool:
            return isinstance(obj, (builtins.bool, SymBool))
        if c is builtins.float:
            return isinstance(obj, (builtins.float, SymReal))
        return isinstance(obj, c)
    if isinstance(cls, tuple):
        return any(one(c) for c in cls)
    import types as _t
    if isinstance(cls, _t.UnionType):
        return any(one(c) for c in cls.__args__)
    return one(cls)


# --------------------------------------------------------------------------- atom strings
class AtomStr(str):
    """Text of a symbolic integer: an opaque marker that ordinary string code can move around."""
    _n = 0

    def __new__(cls, value, suffix=""):
        AtomStr._n += 1
        s = super().__new__(cls, f"⟦{AtomStr._n}⟧{suffix}")     # suffix "." marks the text of a decimal number
        s.value = value
        REG_ATOMS[str.__str__(s)] = s
        return s

    def strip(self, *a):
        return self

    def __str__(self):
        return self


REG_ATOMS: dict = {}


def atom_of(text):
    """map a token back to its atom (or parse a concrete integer)"""
    if isinstance(text, AtomStr):
        return text.value
    t = str(text).strip()
    if t in REG_ATOMS:
        return REG_ATOMS[t].value
    return builtins.int(t)


def s_str(v=""):
    if isinstance(v, SymInt):
        return AtomStr(v)
    return builtins.str(v)


# --------------------------------------------------------------------------- arrays
class DType:
    """integer dtype stand-in with a value range; compares equal to itself only."""

    def __init__(self, lo, hi, name="int", kind="i", real=None):
        self.lo, self.hi, self.name, self.kind = lo, hi, name, kind
        self.real = real

    def __repr__(self):
        return f"dtype({self.name})"

    @property
    def char(self):
        return self.real.char if self.real is not None else "l"

    @property
    def itemsize(self):
        return self.real.itemsize if self.real is not None else 8


def dtype_of(npdtype):
    import numpy as np
    d = np.dtype(npdtype)
    if d.kind in "iu":
        ii = np.iinfo(d)
        return DType(builtins.int(ii.min), builtins.int(ii.max), d.name, d.kind, d)
    if d.kind == "b":
        return DType(0, 1, "bool", "b", d)
    if d.kind == "f":
        return DType(None, None, d.name, "f", d)
    raise EngineError(f"dtype {d}")


INT64 = DType(-2 ** 63, 2 ** 63 - 1, "int64")


class SymArray:
    """n-d array over a shared flat cell list, with numpy-like views."""

    def __init__(self, cells, shape, offset=0, strides=None, name="a", dtype=None, masq=None, readonly=False):
        self.cells = cells
        self.shape = tuple(shape)
        self.offset = offset
        if strides is None:
            st = []
            acc = 1
            for d in reversed(self.shape):
                st.insert(0, acc)
                acc *= d
            strides = tuple(st)
        self.strides = tuple(strides)
        self.name = name
        self.dtype = dtype
        self._masq = masq
        self.readonly = readonly
        self.attrs = {}

    # masquerade: isinstance(x, Packing) in real code
    @property
    def __class__(self):
        return self._masq if self._masq is not None else SymArray

    def _view(self, shape, offset, strides):
        v = SymArray(self.cells, shape, offset, strides, self.name, self.dtype, None, self.readonly)
        return v

    @property
    def ndim(self): return len(self.shape)

    @property
    def size(self):
        n = 1
        for d in self.shape:
            n *= d
        return n

    def __len__(self):
        if not self.shape:
            raise TypeError("len() of unsized object")
        return self.shape[0]

    @property
    def T(self):
        return self._view(self.shape[::-1], self.offset, self.strides[::-1])

    def _norm(self, idx, dim):
        global ACCESSES
        ACCESSES += 1
        n = self.shape[dim]
        if isinstance(idx, SymBool):
            idx = idx._i()
        if isinstance(idx, SymInt):
            ENG.oblige(z3.And(idx.e >= -n, idx.e < n), f"index in range: {self.name} axis {dim} (len {n})")
            if WRAP_REPORT:
                WRAP_SITES.append((self.name, dim, idx.e, cur_guard()))
            return mk(z3.If(idx.e < 0, idx.e + n, idx.e))
        idx = idx.__index__()
        if not (-n <= idx < n):
            # without guards this ends the path (violation or infeasible); under a guard the
            # access happens only if the guard holds, so execution continues with a dummy
            ENG.oblige(False, f"index in range: {self.name} axis {dim} (len {n}) idx={idx}")
            return _OOB
        return idx + n if idx < 0 else idx

    def _key(self, key):
        if not isinstance(key, tuple):
            key = (key,)
        if len(key) > self.ndim:
            raise IndexError("too many indices")
        return key

    def __getitem__(self, key):
        if isinstance(key, SymArray):
            # fancy indexing a[idx_array] on a 1-d array: gather
            if self.ndim != 1 or key.ndim != 1:
                raise EngineError("fancy indexing is modelled for 1-d arrays only")
            return SymArray([self[k] for k in key.cells_list()], key.shape, name=self.name + "[...]", dtype=self.dtype)
        key = self._key(key)
        if any(isinstance(k, slice) for k in key) or len(key) < self.ndim:
            off = self.offset
            shape = []
            strides = []
            for d, k in enumerate(key):
                if isinstance(k, slice):
                    start, stop, step = k.indices(self.shape[d])
                    ln = len(range(start, stop, step))
                    off += start * self.strides[d]
                    shape.append(ln)
                    strides.append(self.strides[d] * step)
                else:
                    kk = self._norm(k, d)
                    if isinstance(kk, SymInt):
                        kk = self._norm(kk.__index__(), d)
                    if kk is _OOB:
                        kk = 0
                    off += kk * self.strides[d]
            for d in range(len(key), self.ndim):
                shape.append(self.shape[d])
                strides.append(self.strides[d])
            return self._view(shape, off, tuple(strides))
        idxs = [self._norm(k, d) for d, k in enumerate(key)]
        if any(i is _OOB for i in idxs):
            return 0
        if all(not isinstance(i, SymInt) for i in idxs):
            v = self.cells[self.offset + sum(i * s for i, s in zip(idxs, self.strides))]
        else:
            v = self._select(idxs)
        if NUMPY_SCALARS and NUMBA_DEPTH == 0 and self.dtype is not None and self.dtype.lo is not None and not isinstance(v, (SymReal, float)):
            return NpInt(v, self.dtype)
        return v

    def _select(self, idxs):
        ranges = [range(self.shape[d]) if isinstance(i, SymInt) else [i] for d, i in enumerate(idxs)]
        res = None
        for combo in itertools.product(*ranges):
            v = self.cells[self.offset + sum(i * s for i, s in zip(combo, self.strides))]
            if res is None:
                res = lift(v)
            else:
                cond = z3.And(*[lift(i) == c for i, c in zip(idxs, combo) if isinstance(i, SymInt)])
                a, b = _coerce(lift(v), res)
                res = z3.If(cond, a, b)
        return mk(res)

    def select(self, *idxs):
        """total select used by specifications: no obligations, index assumed in range"""
        idxs = [i if isinstance(i, SymInt) else (mk(i) if z3.is_expr(i) else i) for i in idxs]
        if all(not isinstance(i, SymInt) for i in idxs):
            return self.cells[self.offset + sum(i * s for i, s in zip(idxs, self.strides))]
        return self._select(idxs)

    def _store_check(self, val):
        dt = self.dtype
        if isinstance(val, NpInt):
            val = val.v
        if isinstance(val, SymBool):
            val = val._i()
        if dt is not None and dt.lo is not None:
            if isinstance(val, SymReal):
                raise EngineError("real stored into integer array")
            if isinstance(val, SymInt) or z3.is_expr(dt.lo) or z3.is_expr(dt.hi):
                v = lift(val)
                ENG.oblige(z3.And(v >= dt.lo, v <= dt.hi), f"value fits dtype: store into {self.name} ({dt.name})")
            elif not (dt.lo <= val <= dt.hi):
                ENG.oblige(False, f"value fits dtype: store into {self.name} ({dt.name}) val={val}")
        return val

    def __setitem__(self, key, val):
        if self.readonly:
            ENG.oblige(False, f"no write to read-only input {self.name}", now=True)
        key = self._key(key)
        if any(isinstance(k, slice) for k in key) or len(key) < self.ndim:
            view = self[key if len(key) > 1 else key[0]]
            view._assign_all(val)
            return
        idxs = [self._norm(k, d) for d, k in enumerate(key)]
        if any(i is _OOB for i in idxs):
            return
        if isinstance(val, SymArray) and val.shape == ():
            val = val.cells[val.offset]
        val = self._store_check(val)
        g = cur_guard()
        if all(not isinstance(i, SymInt) for i in idxs):
            p = self.offset + sum(i * s for i, s in zip(idxs, self.strides))
            self.cells[p] = val if g is None else _ite(g, val, self.cells[p])
            return
        ranges = [range(self.shape[d]) if isinstance(i, SymInt) else [i] for d, i in enumerate(idxs)]
        for combo in itertools.product(*ranges):
            pos = self.offset + sum(i * s for i, s in zip(combo, self.strides))
            cond = z3.And(*[lift(i) == c for i, c in zip(idxs, combo) if isinstance(i, SymInt)])
            if g is not None:
                cond = z3.And(g, cond)
            self.cells[pos] = _ite(cond, val, self.cells[pos])

    def _positions(self):
        if not self.shape:
            yield self.offset
            return
        for combo in itertools.product(*[range(n) for n in self.shape]):
            yield self.offset + sum(i * s for i, s in zip(combo, self.strides))

    def cells_list(self):
        return [self.cells[p] for p in self._positions()]

    def _assign_all(self, val):
        pos = list(self._positions())
        if isinstance(val, SymArray):
            vals = val.cells_list()      # snapshot first (overlap semantics)
            if len(vals) == 1 and len(pos) != 1:
                vals = vals * len(pos)
            if len(vals) != len(pos):
                # broadcast row over leading axis
                if len(pos) % len(vals) == 0:
                    vals = vals * (len(pos) // len(vals))
                else:
                    raise ValueError("shape mismatch in assignment")
        elif isinstance(val, (list, tuple, range)) or (hasattr(val, "shape") and getattr(val, "shape", ()) != ()):
            if hasattr(val, "tolist"):
                val = val.tolist()
            vals = [v if is_sym(v) else (v.__index__() if hasattr(v, "__index__") else v) for v in _flat(list(val))]
            if len(vals) != len(pos):
                if len(vals) and len(pos) % len(vals) == 0:
                    vals = vals * (len(pos) // len(vals))
                else:
                    raise ValueError("shape mismatch in assignment")
        else:
            vals = [val] * len(pos)
        g = cur_guard()
        for p, v in zip(pos, vals):
            v = self._store_check(v)
            self.cells[p] = v if g is None else _ite(g, v, self.cells[p])

    def fill(self, v):
        if self.readonly:
            ENG.oblige(False, f"no write to read-only input {self.name}", now=True)
        self._assign_all(v)

    def __iter__(self):
        for i in range(self.shape[0]):
            yield self[i]

    def max(self, initial=None):
        vals = self.cells_list() + ([initial] if initial is not None else [])
        if not vals:
            raise ValueError("zero-size array to reduction operation maximum which has no identity")
        return s_max(vals) if len(vals) > 1 else vals[0]

    def min(self, initial=None):
        vals = self.cells_list() + ([initial] if initial is not None else [])
        if not vals:
            raise ValueError("zero-size array to reduction operation minimum which has no identity")
        return s_min(vals) if len(vals) > 1 else vals[0]

    def sum(self):
        return s_sum(self.cells_list())

    def flatten(self):
        return SymArray(self.cells_list(), (self.size,), name=self.name + ".flat", dtype=self.dtype)

    def copy(self):
        return SymArray(self.cells_list(), self.shape, name=self.name + ".copy", dtype=self.dtype)

    def reshape(self, *shape):
        if len(shape) == 1 and isinstance(shape[0], tuple):
            shape = shape[0]
        c = self.cells_list()
        return SymArray(c, shape, name=self.name, dtype=self.dtype)

    def _ew(self, o, f):
        if isinstance(o, SymArray):
            if o.shape != self.shape:
                raise EngineError("element-wise arithmetic on different shapes is not modelled")
            vals = [f(a, b) for a, b in zip(self.cells_list(), o.cells_list())]
        else:
            vals = [f(a, o) for a in self.cells_list()]
        dt = _narrow_result_dtype(self, o)
        if dt is not None:
            # numpy computes integer array arithmetic in the (promoted) array dtype and wraps silently: exact for types up to 32 bits
            span = dt.hi - dt.lo + 1
            vals = [(((v - dt.lo) % span) + dt.lo) if isinstance(v, (builtins.int, SymInt)) and not isinstance(v, builtins.bool) else v for v in vals]
        return SymArray(vals, self.shape, name=self.name + "'", dtype=dt)

    def __sub__(self, o): return self._ew(o, lambda a, b: a - b)
    def __add__(self, o): return self._ew(o, lambda a, b: a + b)
    def __mul__(self, o): return self._ew(o, lambda a, b: a * b)
    def __truediv__(self, o): return self._ew(o, lambda a, b: a / b)

    def astype(self, dtype):
        """numpy astype: values that fit are kept, others wrap (over-approximated by an arbitrary value of the dtype)"""
        dt = dtype if isinstance(dtype, DType) else dtype_of(dtype)
        out = SymArray([0] * self.size, self.shape, name=self.name + ".astype", dtype=dt)
        NPShim.copyto(_NPS[0], out, self, casting="unsafe")
        return out

    def any(self):
        r = False
        for c in self.cells_list():
            r = s_bool(c) if r is False else mkb(z3.Or(bexpr(r), bexpr(s_bool(c))))
        return r

    def all(self):
        r = True
        for c in self.cells_list():
            r = s_bool(c) if r is True else mkb(z3.And(bexpr(r), bexpr(s_bool(c))))
        return r

    def sort(self):
        vals = sort_network(self.cells_list())
        for p, v in zip(self._positions(), vals):
            self.cells[p] = v

    def tolist(self):
        if self.ndim == 1:
            return self.cells_list()
        return [self[i].tolist() for i in range(self.shape[0])]

    def concrete(self, model):
        def ev(v):
            if isinstance(v, (SymInt, SymBool)):
                r = model.eval(lift(v), model_completion=True)
                return r.as_long()
            if isinstance(v, SymReal):
                r = model.eval(v.e, model_completion=True)
                return float(r.as_fraction()) if z3.is_rational_value(r) else float(r.approx(20).as_fraction())
            return v
        flat = [ev(self.cells[p]) for p in self._positions()]
        if self.ndim <= 1:
            return flat
        import numpy as np
        return np.array(flat, dtype=object).reshape(self.shape).tolist()

    def __getattr__(self, name):
        a = self.__dict__.get("attrs")
        if a is not None and name in a:
            return a[name]
        raise AttributeError(name)

    def __repr__(self):
        return f"<SymArray {self.name} {self.shape}>"

    def __eq__(self, o):
        raise EngineError("array == is not modelled")
    __hash__ = object.__hash__


_OOB = object()
NUMBA_DEPTH = 0         # > 0 while a transformed numba kernel runs (numba upcasts narrow integers to int64)
ACCESSES = 0            # number of index normalisations performed (evidence: how many accesses were checked)
class SparseSymArray:
    """1-d integer array of SYMBOLIC length backed by a z3 array term (for tables that are far too long to
    enumerate, e.g. a frequency table of upper-bound+1 entries).  Every access carries 0 <= idx < length
    (negative indices are reported: such tables are never meant to wrap)."""

    def __init__(self, name, length, init=0, dtype=None):
        self.name = name
        self.length = lift(length)
        self.arr = z3.K(z3.IntSort(), z3.IntVal(init)) if init is not None else z3.Array(name, z3.IntSort(), z3.IntSort())
        self.dtype = dtype
        self.accesses = []

    def __len__(self):
        raise EngineError("len() of a table of symbolic length")

    @property
    def shape(self):
        return (mk(self.length),)

    def _idx(self, key):
        global ACCESSES
        ACCESSES += 1
        k = lift(key)
        self.accesses.append(k)
        ENG.oblige(z3.And(k >= 0, k < self.length), f"index in range: {self.name} (symbolic length)")
        return k

    def __getitem__(self, key):
        return mk(z3.Select(self.arr, self._idx(key)))

    def __setitem__(self, key, val):
        k = self._idx(key)
        g = cur_guard()
        new = z3.Store(self.arr, k, lift(val))
        self.arr = new if g is None else z3.If(g, new, self.arr)


WRAP_REPORT = False
WRAP_SITES: list = []


def _flat(v):
    out = []
    for q in v:
        if isinstance(q, (list, tuple)):
            out.extend(_flat(q))
        else:
            out.append(q)
    return out


def _ite(cond, a, b):
    if a is b:
        return a
    if isinstance(a, (bool, SymBool)) and isinstance(b, (bool, SymBool)):
        return mkb(z3.If(cond, bexpr(a), bexpr(b)))
    x, y = _coerce(lift(a), lift(b))
    return mk(z3.If(cond, x, y))


def sort_network(vals):
    """ascending sort by an odd-even transposition network of compare-exchange ite terms"""
    v = list(vals)
    n = len(v)
    for rnd in range(n):
        for i in range(rnd % 2, n - 1, 2):
            a, b = v[i], v[i + 1]
            if is_sym(a) or is_sym(b):
                x, y = _coerce(lift(a), lift(b))
                v[i] = mk(z3.If(x <= y, x, y))
                v[i + 1] = mk(z3.If(x <= y, y, x))
            elif a > b:
                v[i], v[i + 1] = b, a
    return v


def fresh_int(name):
    return SymInt(z3.Int(name))


def fresh_real(name):
    return SymReal(z3.Real(name))


def fresh_array(name, shape, dtype=None, masq=None, real=False):
    n = 1
    for d in shape:
        n *= d
    cells = [(SymReal(z3.Real(f"{name}_{k}")) if real else SymInt(z3.Int(f"{name}_{k}"))) for k in range(n)]
    return SymArray(cells, shape, name=name, dtype=dtype, masq=masq)


def const_array(name, data, dtype=None, masq=None):
    import numpy as np
    a = np.asarray(data)
    cells = [builtins.int(v) if a.dtype.kind in "iub" else float(v) for v in a.flatten().tolist()]
    return SymArray(cells, a.shape, name=name, dtype=dtype, masq=masq)


def _narrow_result_dtype(a, o):
    """result dtype of integer array arithmetic when it is a concrete type of at most 32 bits (then wrap-around is modelled exactly)"""
    da = a.dtype
    if da is None or da.lo is None or z3.is_expr(da.lo) or z3.is_expr(da.hi) or da.kind not in "iu":
        return None
    if isinstance(o, SymArray):
        db = o.dtype
        if db is None or db.lo is None or z3.is_expr(db.lo) or z3.is_expr(db.hi) or db.kind not in "iu":
            return None
        lo, hi = builtins.min(da.lo, db.lo), builtins.max(da.hi, db.hi)
    elif isinstance(o, (builtins.int, SymInt)) and not isinstance(o, builtins.bool):
        lo, hi = da.lo, da.hi        # a Python / int64 scalar does not widen an integer array (value-based casting aside)
    else:
        return None
    if hi - lo + 1 > 2 ** 32:
        return None
    if lo == da.lo and hi == da.hi:
        return da
    bits = 8
    while not (-(2 ** (bits - 1)) <= lo and hi <= 2 ** (bits - 1) - 1) and not (lo >= 0 and hi <= 2 ** bits - 1):
        bits *= 2
    if bits > 32:
        return None
    return DType(0, 2 ** bits - 1, f"uint{bits}", "u") if lo >= 0 else DType(-(2 ** (bits - 1)), 2 ** (bits - 1) - 1, f"int{bits}", "i")


def in_dtype(arr):
    """constraint: every cell of arr lies in arr's dtype range (what a real array guarantees)"""
    dt = arr.dtype
    cs = []
    for c in arr.cells_list():
        if isinstance(c, SymInt):
            cs.append(z3.And(c.e >= dt.lo, c.e <= dt.hi))
    return z3.And(*cs) if cs else z3.BoolVal(True)


def model_int(m, v):
    if isinstance(v, (SymInt, SymBool)):
        return m.eval(lift(v), model_completion=True).as_long()
    if z3.is_expr(v):
        r = m.eval(v, model_completion=True)
        if z3.is_int_value(r):
            return r.as_long()
        if z3.is_true(r):
            return True
        if z3.is_false(r):
            return False
        if z3.is_rational_value(r):
            return float(r.as_fraction())
        return str(r)
    return v


# --------------------------------------------------------------------------- numpy shim
class NPShim:
    """stands in for the module global `np` inside transformed code"""

    def __init__(self):
        import numpy as np
        self._np = np
        self._ctr = 0

    def __getattr__(self, name):
        return getattr(self._np, name)

    def _dt(self, dtype):
        if isinstance(dtype, DType):
            return dtype
        if dtype is None:
            return dtype_of(self._np.float64)
        if dtype is builtins.int or dtype is SInt:
            return INT64
        return dtype_of(dtype)

    def _shape(self, shape):
        if isinstance(shape, (builtins.int, SymInt)):
            shape = (shape,)
        return tuple(s.__index__() for s in shape)

    def empty(self, shape, dtype=None):
        self._ctr += 1
        dt = self._dt(dtype)
        arr = fresh_array(f"empty{self._ctr}", self._shape(shape), dtype=dt, real=(dt.kind == "f"))
        if dt.lo is not None:
            ENG.assume_fast(in_dtype(arr))
        return arr

    def zeros(self, shape, dtype=None):
        shape = self._shape(shape)
        n = 1
        for d in shape:
            n *= d
        self._ctr += 1
        return SymArray([0] * n, shape, name=f"zeros{self._ctr}", dtype=self._dt(dtype))

    def ones(self, shape, dtype=None):
        a = self.zeros(shape, dtype)
        a.cells[:] = [1] * len(a.cells)
        return a

    def full(self, shape, val, dtype=None):
        a = self.zeros(shape, dtype)
        if dtype is not None:
            val = a._store_check(val)       # a fill value outside the dtype wraps silently in compiled code
        a.cells[:] = [val] * len(a.cells)
        return a

    def empty_like(self, a, dtype=None):
        return self.empty(a.shape, dtype or a.dtype)

    def zeros_like(self, a, dtype=None):
        return self.zeros(a.shape, dtype or a.dtype)

    def copy(self, a):
        return a.copy() if isinstance(a, SymArray) else self._np.copy(a)

    def copyto(self, dst, src, casting="same_kind"):
        if not isinstance(dst, SymArray):
            self._np.copyto(dst, src, casting=casting)
            return
        dt = dst.dtype
        if casting == "unsafe" and dt is not None and dt.lo is not None and isinstance(src, SymArray):
            # numpy wraps silently: a value that does not fit becomes some other value of the dtype
            # (over-approximated by a fresh value), a value that fits is stored as it is
            vals = src.cells_list()
            pos = list(dst._positions())
            if len(vals) != len(pos):
                raise ValueError("shape mismatch in copyto")
            for p, v in zip(pos, vals):
                if isinstance(v, SymInt) or z3.is_expr(dt.lo) or z3.is_expr(dt.hi):
                    self._ctr += 1
                    g = z3.Int(f"wrapped{self._ctr}")
                    ENG.assume_fast(z3.And(g >= dt.lo, g <= dt.hi))
                    ve = lift(v)
                    dst.cells[p] = mk(z3.If(z3.And(ve >= dt.lo, ve <= dt.hi), ve, g))
                else:
                    if not (dt.lo <= v <= dt.hi):
                        span = dt.hi - dt.lo + 1
                        v = (v - dt.lo) % span + dt.lo
                    dst.cells[p] = v
            return
        dst._assign_all(src)

    def array(self, data, dtype=None):
        if isinstance(data, SymArray):
            c = data.copy()
            if dtype is not None:
                c.dtype = self._dt(dtype)
            return c
        flat = _flat(data) if isinstance(data, (list, tuple)) else None
        if flat is not None and any(is_sym(v) for v in flat):
            def shp(d):
                return (len(d),) + shp(d[0]) if isinstance(d, (list, tuple)) else ()
            return SymArray(flat, shp(data), name="array", dtype=self._dt(dtype) if dtype is not None else INT64)
        return self._np.array(data, dtype) if dtype is not None else self._np.array(data)

    def _uf(self, name, x):
        if isinstance(x, (SymReal, SymInt)):
            f = z3.Function(name, _REAL, _REAL)
            a = x.e if isinstance(x, SymReal) else z3.ToReal(x.e)
            return SymReal(f(a))
        return getattr(self._np, name)(x)

    def arctan(self, x): return self._uf("arctan", x)
    def exp(self, x): return self._uf("exp", x)
    def tanh(self, x): return self._uf("tanh", x)
    def sin(self, x): return self._uf("sin", x)
    def cos(self, x): return self._uf("cos", x)

    def nditer(self, a):
        if isinstance(a, SymArray):
            return iter(a.cells_list())
        return self._np.nditer(a)

    def fromstring(self, text, dtype=None, sep=" "):
        """np.fromstring(text, dtype, sep): token split; atom tokens map back to their integers"""
        toks = [t for t in text.split(sep)] if sep.strip() else text.split()
        vals = [atom_of(t) for t in toks if t.strip() != ""]
        dt = dtype if isinstance(dtype, DType) else (dtype_of(dtype) if dtype is not None else INT64)
        out = SymArray([0] * len(vals), (len(vals),), name="fromstring", dtype=dt)
        src = SymArray(vals, (len(vals),), name="tokens", dtype=INT64)
        self.copyto(out, src, casting="unsafe")
        return out

    def fill_diagonal(self, a, val):
        if not isinstance(a, SymArray):
            return self._np.fill_diagonal(a, val)
        for i in range(min(a.shape)):
            a[i, i] = val

    def add(self, a, b, out=None, dtype=None):
        if not isinstance(a, SymArray) and not isinstance(b, SymArray):
            return self._np.add(a, b, out=out, dtype=dtype) if out is not None or dtype is not None else self._np.add(a, b)
        if not isinstance(a, SymArray):
            a, b = b, a
        vb = b.cells_list() if isinstance(b, SymArray) else [b] * a.size
        if isinstance(b, SymArray) and b.shape != a.shape:
            raise EngineError("np.add on different shapes is not modelled")
        res = [x + y for x, y in zip(a.cells_list(), vb)]
        if out is None:
            return SymArray(res, a.shape, name="add", dtype=self._dt(dtype) if dtype is not None else a.dtype)
        for p_, v in zip(out._positions(), res):
            out.cells[p_] = out._store_check(v)
        return out

    def allclose(self, a, b, rtol=1e-05, atol=1e-08, equal_nan=False):
        """numpy's definition: all(|a - b| <= atol + rtol * |b|) (real arithmetic on the exact values of the float tolerances)"""
        if not isinstance(a, SymArray) and not isinstance(b, SymArray):
            return self._np.allclose(a, b, rtol=rtol, atol=atol, equal_nan=equal_nan)
        va = a.cells_list() if isinstance(a, SymArray) else None
        vb = b.cells_list() if isinstance(b, SymArray) else None
        if va is None:
            va = [a] * len(vb)
        if vb is None:
            vb = [b] * len(va)
        if len(va) != len(vb):
            raise EngineError("np.allclose on different shapes is not modelled")
        cs = []
        for x, y in zip(va, vb):
            xe, ye = z3.ToReal(lift(x)) if z3.is_int(lift(x)) else lift(x), z3.ToReal(lift(y)) if z3.is_int(lift(y)) else lift(y)
            d = xe - ye
            ay = z3.If(ye >= 0, ye, -ye)
            cs.append(z3.If(d >= 0, d, -d) <= lift(float(atol)) + lift(float(rtol)) * ay)
        return mkb(z3.simplify(z3.And(*cs))) if cs else True

    def multiply(self, a, b, out=None):
        va, vb = a.cells_list(), b.cells_list()
        res = [x * y for x, y in zip(va, vb)]
        if out is None:
            return SymArray(res, a.shape, name="mul", dtype=a.dtype)
        for p, v in zip(out._positions(), res):
            out.cells[p] = out._store_check(v)
        return out

    def argsort(self, a):
        """argsort of a PERMUTATION of 0..n-1 is its inverse (the only use in this code base; the harness
        assumes the argument is a permutation)"""
        if not isinstance(a, SymArray):
            return self._np.argsort(a)
        vals = a.cells_list()
        n = len(vals)
        if not any(is_sym(v) for v in vals):
            return SymArray([builtins.int(i) for i in self._np.argsort(self._np.array(vals))], (n,), name="argsort", dtype=INT64)
        out = []
        for v in range(n):
            e = z3.IntVal(0)
            for i in range(n):
                e = z3.If(lift(vals[i]) == v, z3.IntVal(i), e)
            out.append(mk(e))
        return SymArray(out, (n,), name="argsort", dtype=INT64)

    def isfinite(self, v):
        if is_sym(v):
            return True
        return self._np.isfinite(v)


_NPS = []


def install_builtins(over=None):
    """names shadowed inside every transformed function"""
    if not _NPS:
        _NPS.append(NPShim())
    d = {"int": SInt, "bool": SBool, "min": s_min, "max": s_max, "abs": s_abs, "sum": s_sum,
         "isinstance": s_isinstance, "np": NPShim(), "str": _StrShadow, "float": SFloat}
    if over:
        d.update(over)
    return d


class _StrMeta(type):
    def __instancecheck__(cls, obj):
        return isinstance(obj, builtins.str)

    def __call__(cls, *a, **k):
        if len(a) == 1 and not k:
            return s_str(a[0])
        return builtins.str(*a, **k)

    def __getattr__(cls, name):
        return getattr(builtins.str, name)


class _StrShadow(metaclass=_StrMeta):
    pass


def ctor_shadow(real_cls, factory):
    """stands in for a class name inside transformed code: isinstance(x, Name) still refers to the real class,
    Name(...) calls `factory` (a symbolic run of the real constructor)"""
    class _Meta(type):
        def __instancecheck__(cls, obj):
            return isinstance(obj, real_cls)

        def __call__(cls, *a, **k):
            return factory(*a, **k)

        def __getattr__(cls, name):
            return getattr(real_cls, name)

    class Shadow(metaclass=_Meta):
        pass
    Shadow.__name__ = real_cls.__name__
    return Shadow
