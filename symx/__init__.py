"""symx: symbolic execution of the repository's real Python source on z3 proxy values."""
