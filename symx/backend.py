"""Query back-ends: exact Int->BitVec translation (width from interval analysis) + z3 LIA, portfolio.
DESIGN.md 3.5."""
from __future__ import annotations

import threading
import time

import z3

INF = float("inf")


def _flatten_and(fs):
    out = []
    st = list(fs)
    while st:
        f = st.pop()
        if z3.is_and(f):
            st.extend(f.children())
        else:
            out.append(f)
    return out


def _is_var(e):
    return z3.is_const(e) and e.decl().kind() == z3.Z3_OP_UNINTERPRETED and e.sort() == z3.IntSort()


def extract_bounds(constraints):
    """variable -> [lo, hi] from top-level conjuncts of the shapes x<=c, x>=c, c<=x, x==c,
    Or(x==c1, x==c2, ...), Not(x<=c) ..."""
    b = {}

    def upd(x, lo=None, hi=None):
        k = x.decl().name()
        cur = b.setdefault(k, [-INF, INF])
        if lo is not None:
            cur[0] = max(cur[0], lo)
        if hi is not None:
            cur[1] = min(cur[1], hi)

    def atom(f, neg=False):
        k = f.decl().kind()
        if k == z3.Z3_OP_NOT:
            return atom(f.arg(0), not neg)
        if k in (z3.Z3_OP_LE, z3.Z3_OP_GE, z3.Z3_OP_LT, z3.Z3_OP_GT, z3.Z3_OP_EQ):
            a, c = f.arg(0), f.arg(1)
            if z3.is_int_value(a) and _is_var(c):
                a, c = c, a
                k = {z3.Z3_OP_LE: z3.Z3_OP_GE, z3.Z3_OP_GE: z3.Z3_OP_LE, z3.Z3_OP_LT: z3.Z3_OP_GT,
                     z3.Z3_OP_GT: z3.Z3_OP_LT, z3.Z3_OP_EQ: z3.Z3_OP_EQ}[k]
            if not (_is_var(a) and z3.is_int_value(c)):
                return
            v = c.as_long()
            if neg:
                if k == z3.Z3_OP_EQ:
                    return
                k, v = {z3.Z3_OP_LE: (z3.Z3_OP_GE, v + 1), z3.Z3_OP_GE: (z3.Z3_OP_LE, v - 1),
                        z3.Z3_OP_LT: (z3.Z3_OP_GE, v), z3.Z3_OP_GT: (z3.Z3_OP_LE, v)}[k]
            if k == z3.Z3_OP_LE:
                upd(a, hi=v)
            elif k == z3.Z3_OP_GE:
                upd(a, lo=v)
            elif k == z3.Z3_OP_LT:
                upd(a, hi=v - 1)
            elif k == z3.Z3_OP_GT:
                upd(a, lo=v + 1)
            else:
                upd(a, lo=v, hi=v)
        elif k == z3.Z3_OP_OR and not neg:
            # Or of equalities / And-bounded ranges over a single variable
            lo, hi, var = INF, -INF, None
            for d in f.children():
                sub = extract_bounds([d])
                if len(sub) != 1:
                    return
                (n, (l, h)), = sub.items()
                if var is None:
                    var = n
                if n != var or l == -INF or h == INF:
                    return
                lo, hi = min(lo, l), max(hi, h)
            if var is not None:
                cur = b.setdefault(var, [-INF, INF])
                cur[0] = max(cur[0], lo)
                cur[1] = min(cur[1], hi)

    for f in _flatten_and(constraints):
        if z3.is_bool(f):
            atom(f)
    return b


def intervals(terms, bounds):
    """max |value| any integer sub-term can take, by interval propagation over the DAG."""
    cache = {}
    worst = [0]

    def iv(e):
        k = e.get_id()
        if k in cache:
            return cache[k]
        kind = e.decl().kind()
        if e.sort() != z3.IntSort():
            for c in e.children():
                iv(c)
            cache[k] = None
            return None
        if z3.is_int_value(e):
            v = e.as_long()
            r = (v, v)
        elif _is_var(e):
            lo, hi = bounds.get(e.decl().name(), (-INF, INF))
            r = (lo, hi)
        else:
            ch = [iv(c) for c in e.children()]
            if kind == z3.Z3_OP_ADD:
                r = (sum(c[0] for c in ch), sum(c[1] for c in ch))
            elif kind == z3.Z3_OP_SUB:
                lo, hi = ch[0]
                for c in ch[1:]:
                    lo, hi = lo - c[1], hi - c[0]
                r = (lo, hi)
            elif kind == z3.Z3_OP_UMINUS:
                r = (-ch[0][1], -ch[0][0])
            elif kind == z3.Z3_OP_MUL:
                r = ch[0]
                for c in ch[1:]:
                    ps = [_m(a, b_) for a in r for b_ in c]
                    r = (min(ps), max(ps))
            elif kind == z3.Z3_OP_ITE:
                r = (min(ch[1][0], ch[2][0]), max(ch[1][1], ch[2][1]))
            elif kind in (z3.Z3_OP_IDIV, z3.Z3_OP_DIV):
                m = max(abs(ch[0][0]), abs(ch[0][1]))
                r = (-m, m)
            elif kind in (z3.Z3_OP_MOD, z3.Z3_OP_REM):
                m = max(abs(ch[1][0]), abs(ch[1][1]))
                r = (-m, m)
            else:
                r = (-INF, INF)
        m = max(abs(r[0]), abs(r[1]))
        if m > worst[0]:
            worst[0] = m
        cache[k] = r
        return r

    for t in terms:
        iv(t)
    return worst[0]


def _m(a, b):
    if a == 0 or b == 0:
        return 0
    return a * b


class Unsupported(Exception):
    pass


def int2bv(e, w, cache, ctx=None):
    k = e.get_id()
    if k in cache:
        return cache[k]
    d = e.decl().kind()
    ch = [int2bv(c, w, cache) for c in e.children()]
    if z3.is_int_value(e):
        r = z3.BitVecVal(e.as_long(), w)
    elif _is_var(e):
        r = z3.BitVec(e.decl().name(), w)
    elif z3.is_const(e) and e.sort() == z3.BoolSort():
        r = e
    elif d == z3.Z3_OP_ADD:
        r = ch[0]
        for c in ch[1:]:
            r = r + c
    elif d == z3.Z3_OP_SUB:
        r = ch[0]
        for c in ch[1:]:
            r = r - c
    elif d == z3.Z3_OP_UMINUS:
        r = -ch[0]
    elif d == z3.Z3_OP_MUL:
        r = ch[0]
        for c in ch[1:]:
            r = r * c
    elif d == z3.Z3_OP_IDIV:
        r = _bv_div(ch[0], ch[1], e.arg(1))
    elif d == z3.Z3_OP_MOD:
        q = _bv_div(ch[0], ch[1], e.arg(1))
        r = ch[0] - ch[1] * q
    elif d == z3.Z3_OP_ITE:
        r = z3.If(ch[0], ch[1], ch[2])
    elif d == z3.Z3_OP_LE:
        r = ch[0] <= ch[1]
    elif d == z3.Z3_OP_LT:
        r = ch[0] < ch[1]
    elif d == z3.Z3_OP_GE:
        r = ch[0] >= ch[1]
    elif d == z3.Z3_OP_GT:
        r = ch[0] > ch[1]
    elif d == z3.Z3_OP_EQ:
        r = ch[0] == ch[1]
    elif d == z3.Z3_OP_DISTINCT:
        r = z3.Distinct(*ch)
    elif d == z3.Z3_OP_AND:
        r = z3.And(*ch)
    elif d == z3.Z3_OP_OR:
        r = z3.Or(*ch)
    elif d == z3.Z3_OP_NOT:
        r = z3.Not(ch[0])
    elif d == z3.Z3_OP_XOR:
        r = z3.Xor(ch[0], ch[1])
    elif d == z3.Z3_OP_IMPLIES:
        r = z3.Implies(ch[0], ch[1])
    elif d in (z3.Z3_OP_TRUE, z3.Z3_OP_FALSE):
        r = e
    else:
        raise Unsupported(e.decl().name())
    cache[k] = r
    return r


def _bv_div(a, d, d_int):
    """euclidean integer division (z3 Int `div`) on signed bit-vectors"""
    def pos(a_, d_):            # d_ > 0: floor
        q0 = a_ / d_            # bvsdiv: truncation
        r0 = z3.SRem(a_, d_)
        return z3.If(r0 < 0, q0 - 1, q0)
    if z3.is_int_value(d_int):
        if d_int.as_long() > 0:
            return pos(a, d)
        if d_int.as_long() < 0:
            return -pos(a, -d)
        raise Unsupported("div by zero constant")
    return z3.If(d > 0, pos(a, d), -pos(a, -d))


class Result:
    def __init__(self, status, model=None, backend=None, seconds=0.0, width=None, detail=""):
        self.status = status          # "unsat" | "sat" | "unknown"
        self.model = model            # dict name -> python value (ints / bools)
        self.backend = backend
        self.seconds = seconds
        self.width = width
        self.detail = detail

    def __repr__(self):
        return f"<{self.status} via {self.backend} {self.seconds:.2f}s w={self.width}>"


def _model_dict(m, is_bv):
    out = {}
    for d in m.decls():
        v = m[d]
        if z3.is_bv_value(v):
            out[d.name()] = v.as_signed_long()
        elif z3.is_int_value(v):
            out[d.name()] = v.as_long()
        elif z3.is_true(v):
            out[d.name()] = True
        elif z3.is_false(v):
            out[d.name()] = False
        elif z3.is_rational_value(v):
            out[d.name()] = float(v.as_fraction())
        elif z3.is_algebraic_value(v):
            out[d.name()] = float(v.approx(20).as_fraction())
    return out


QUERY_LOG: list = []


def solve(constraints, goal=None, timeout_s=120, backends=("bv", "lia"), bounds=None, label="", extra_terms=(),
          min_width=8, max_width=72):
    """Decide satisfiability of And(constraints, goal).  All assertions are over z3 Int/Bool (or Real:
    then only the default solver is used).  Returns Result; `unknown` is inconclusive."""
    fs = [c for c in constraints if not (isinstance(c, bool) and c)]
    fs = [z3.BoolVal(c) if isinstance(c, bool) else c for c in fs]
    if goal is not None:
        fs = fs + [goal]
    t0 = time.time()
    plan = []
    width = None
    if "bv" in backends:
        try:
            b = dict(extract_bounds(fs))
            if bounds:
                for k, v in bounds.items():
                    b[k] = list(v)
            worst = intervals(list(fs) + list(extra_terms), b)
            if worst != INF:
                width = max(min_width, int(worst).bit_length() + 2)
                if width <= max_width:
                    plan.append("bv")
        except Unsupported:
            pass
    if "lia" in backends:
        plan.append("lia")
    if "nla" in backends:
        plan.append("nla")
    if not plan:
        plan = ["lia"]

    results = {}
    ctxs = {}
    done = threading.Event()

    solvers = {}
    for kind in plan:        # build in the calling thread: translate() reads the source context
        t1 = time.time()
        try:
            ctx = z3.Context()
            if kind == "bv":
                cache = {}
                gs = [int2bv(f, width, cache) for f in fs]
                s = z3.SolverFor("QF_BV", ctx=ctx)
                for g_ in gs:
                    s.add(g_.translate(ctx))
            else:
                s = z3.Solver(ctx=ctx) if kind == "lia" else z3.SolverFor("QF_NIA", ctx=ctx)
                for f in fs:
                    s.add(f.translate(ctx))
            s.set("timeout", int(timeout_s * 1000))
            solvers[kind] = s
            ctxs[kind] = ctx
        except Unsupported as u:
            results[kind] = Result("unknown", None, kind, time.time() - t1, None, f"unsupported {u}")

    def run(kind):
        s = solvers[kind]
        t1 = time.time()
        try:
            r = s.check()
            if r == z3.sat:
                results[kind] = Result("sat", _model_dict(s.model(), kind == "bv"), kind, time.time() - t1, width if kind == "bv" else None)
            elif r == z3.unsat:
                results[kind] = Result("unsat", None, kind, time.time() - t1, width if kind == "bv" else None)
            else:
                results[kind] = Result("unknown", None, kind, time.time() - t1, None, s.reason_unknown())
        except z3.Z3Exception as ex:
            results[kind] = Result("unknown", None, kind, time.time() - t1, None, f"z3 exception {ex}")
        if results[kind].status != "unknown":
            done.set()

    todo = [k for k in plan if k in solvers]
    if len(todo) == 1:
        run(todo[0])
    elif todo:
        ths = [threading.Thread(target=run, args=(k,), daemon=True) for k in todo]
        for t in ths:
            t.start()
        end = time.time() + timeout_s + 5
        while time.time() < end and not done.is_set() and any(t.is_alive() for t in ths):
            done.wait(0.05)
        for k, c in list(ctxs.items()):
            if k not in results:
                try:
                    c.interrupt()
                except Exception:
                    pass
        for t in ths:
            t.join(15)
    best = None
    for k in plan:
        r = results.get(k)
        if r is not None and r.status != "unknown":
            if best is None or r.seconds < best.seconds:
                best = r
    if best is None:
        det = "; ".join(f"{k}:{results[k].detail}" for k in results)
        best = Result("unknown", None, "+".join(plan), time.time() - t0, width, det)
    # two definitive answers must agree
    defs = {results[k].status for k in results if results[k].status != "unknown"}
    if len(defs) > 1:
        best = Result("unknown", None, "+".join(plan), time.time() - t0, width, "BACKENDS DISAGREE")
    best.seconds = time.time() - t0
    QUERY_LOG.append(dict(label=label, status=best.status, backend=best.backend, seconds=round(best.seconds, 3),
                          width=best.width, n_assertions=len(fs)))
    return best


def cvc5_check(constraints, goal=None, timeout_s=60, width=None):
    """Second opinion on one decided query through cvc5 (python wheel) on the SMT-LIB2 dump."""
    import cvc5
    fs = list(constraints) + ([goal] if goal is not None else [])
    if width is not None:
        cache = {}
        fs = [int2bv(f, width, cache) for f in fs]
    s = z3.Solver()
    s.add(*fs)
    text = s.to_smt2()
    logic = "QF_BV" if width is not None else "QF_NIA"
    slv = cvc5.Solver()
    slv.setOption("tlimit-per", str(int(timeout_s * 1000)))
    slv.setLogic(logic)
    parser = cvc5.InputParser(slv)
    parser.setStringInput(cvc5.InputLanguage.SMT_LIB_2_6, text, "q")
    sm = parser.getSymbolManager()
    res = None
    while True:
        cmd = parser.nextCommand()
        if cmd.isNull():
            break
        out = cmd.invoke(slv, sm)
        o = str(out).strip()
        if o in ("sat", "unsat", "unknown"):
            res = o
    return res
