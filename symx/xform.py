"""AST pass (state merging) + loader of the repository's real functions.  DESIGN.md 3.1, 3.3."""
from __future__ import annotations

import ast
import hashlib
import inspect
import textwrap
import types

import z3

from . import core
from .core import (SymInt, SymBool, SymReal, SymArray, mk, mkb, lift, bexpr, GUARDS, guard, EngineError)

UNB = object()
ACC_MERGE = False        # accumulator-aware merging (flat sums of guarded increments); harnesses opt in
SOURCES: dict = {}          # qualified name -> sha256 of the source text that was executed symbolically
STATS: dict = {}


def _tsize(e, limit=4000):
    """DAG size of a term, counted up to `limit` (raw C API: no wrapper objects)"""
    from z3 import z3core as zc
    ctx = e.ctx.ref()
    seen = set()
    st = [e.as_ast()]
    n = 0
    while st:
        t = st.pop()
        i = zc.Z3_get_ast_id(ctx, t)
        if i in seen:
            continue
        seen.add(i)
        n += 1
        if n > limit:
            return n
        if zc.Z3_get_ast_kind(ctx, t) == z3.Z3_APP_AST:
            app = zc.Z3_to_app(ctx, t)
            for k in range(zc.Z3_get_app_num_args(ctx, app)):
                st.append(zc.Z3_get_app_arg(ctx, app, k))
    return n


def rt_bo(op, *thunks):
    """lazy and/or over concrete and symbolic operands"""
    acc = None
    for th in thunks:
        if acc is None:
            v = th()
        else:
            g = acc if op == "and" else z3.Not(acc)
            with guard(g):
                v = th()
        if isinstance(v, (SymInt, SymReal)):
            v = mkb(v.e != 0)
        if isinstance(v, SymBool):
            acc = v.e if acc is None else (z3.And(acc, v.e) if op == "and" else z3.Or(acc, v.e))
        else:
            vb = bool(v)
            if op == "and" and not vb:
                return False
            if op == "or" and vb:
                return True
    if acc is None:
        return op == "and"
    return mkb(acc)


def rt_not(v):
    if isinstance(v, (SymInt, SymReal)):
        v = mkb(v.e != 0)
    if isinstance(v, SymBool):
        return mkb(z3.Not(v.e))
    return not v


def rt_cond(v):
    if isinstance(v, (SymInt, SymReal)):
        return mkb(v.e != 0)
    if isinstance(v, SymBool):
        return mkb(v.e)
    return bool(v)


def rt_issym(c):
    return isinstance(c, SymBool)


def rt_guard(c, neg=False):
    e = c.e
    return guard(z3.Not(e) if neg else e)


def rt_merge(c, a, b):
    """value `a if c else b`"""
    if a is b:
        return a
    if a is UNB or isinstance(a, _Unset):    # unbound on one side: the real code cannot read it there (UnboundLocalError / numba typing error)
        return b
    if b is UNB or isinstance(b, _Unset):
        return a
    if isinstance(a, (bool, SymBool)) and isinstance(b, (bool, SymBool)):
        return mkb(z3.If(c.e, bexpr(a), bexpr(b)))
    if isinstance(a, (int, float, SymInt, SymBool, SymReal)) and isinstance(b, (int, float, SymInt, SymBool, SymReal)):
        if isinstance(a, SymBool):
            a = a._i()
        if isinstance(b, SymBool):
            b = b._i()
        if ACC_MERGE and isinstance(a, SymInt) and isinstance(b, SymInt):
            if _tsize(a.e, 9) > 8:
                d = z3.simplify(a.e - b.e, som=True)
                sd = _tsize(d, 300)
                if sd < 300 and _tsize(a.e, 2 * sd + 1) > 2 * sd:
                    return mk(b.e + z3.If(c.e, d, 0))
        x, y = core._coerce(lift(a), lift(b))
        return mk(z3.If(c.e, x, y))
    if isinstance(a, SymArray) and isinstance(b, SymArray) and a.cells is b.cells and a.offset == b.offset \
            and a.shape == b.shape and a.strides == b.strides:
        return a
    if a is None and b is None:
        return None
    if isinstance(a, (tuple, list)) and type(a) is type(b) and len(a) == len(b):
        return type(a)(rt_merge(c, x, y) for x, y in zip(a, b))
    raise EngineError(f"cannot merge {type(a)} {type(b)}")


def rt_ite(c, ta, tb):
    c = rt_cond(c)
    if not isinstance(c, SymBool):
        return ta() if c else tb()
    with guard(c.e):
        a = ta()
    with guard(z3.Not(c.e)):
        b = tb()
    try:
        return rt_merge(c, a, b)
    except EngineError:
        # values that cannot be joined (e.g. two different strings): decide the condition by forking
        return a if bool(c) else b


def rt_range(*a):
    return range(*[v.__index__() for v in a])


RT = {"_rt_bo": rt_bo, "_rt_not": rt_not, "_rt_cond": rt_cond, "_rt_issym": rt_issym,
      "_rt_guard": rt_guard, "_rt_merge": rt_merge, "_rt_ite": rt_ite, "_rt_UNB": UNB}

SAFE_CALLS = {"int", "min", "max", "abs", "len", "bool", "float"}


def _assigned_names(stmts, out):
    for s in stmts:
        for n in ast.walk(s):
            if isinstance(n, ast.Name) and isinstance(n.ctx, ast.Store):
                out.add(n.id)
    return out


def _mergeable(stmts, safe):
    for s in stmts:
        if isinstance(s, (ast.Assign, ast.AugAssign, ast.AnnAssign)):
            tg = s.targets if isinstance(s, ast.Assign) else [s.target]
            for t in tg:
                for n in ast.walk(t):
                    if isinstance(n, ast.Attribute) and isinstance(n.ctx, ast.Store):
                        return False
            for n in ast.walk(s):
                if isinstance(n, ast.Call):
                    f = n.func
                    if not (isinstance(f, ast.Name) and (f.id in safe or f.id.startswith("_rt_"))):
                        return False
                if isinstance(n, (ast.Lambda, ast.ListComp, ast.GeneratorExp, ast.Yield, ast.Await, ast.NamedExpr)):
                    return False
                if isinstance(n, ast.Slice):
                    # slices with computed bounds concretise (fork) at run time: such an `if` must stay a fork
                    for b in (n.lower, n.upper, n.step):
                        if b is not None and not (isinstance(b, ast.Constant) or (
                                isinstance(b, ast.UnaryOp) and isinstance(b.operand, ast.Constant))):
                            return False
        elif isinstance(s, ast.Pass):
            pass
        elif isinstance(s, ast.If):
            if not (_mergeable(s.body, safe) and _mergeable(s.orelse, safe)):
                return False
        elif isinstance(s, ast.Expr) and isinstance(s.value, ast.Constant):
            pass
        else:
            return False
    return True


def _ret_outside_loops(stmts):
    """is there a `return` in stmts that is nested in ifs only (not in a loop / try / with)?"""
    for s in stmts:
        if isinstance(s, ast.Return):
            return True
        if isinstance(s, ast.If) and (_ret_outside_loops(s.body) or _ret_outside_loops(s.orelse)):
            return True
    return False


def _always_returns(stmts):
    if not stmts:
        return False
    last = stmts[-1]
    if isinstance(last, ast.Return):
        return True
    if isinstance(last, ast.If):
        return _always_returns(last.body) and _always_returns(last.orelse)
    return False


def _lower_returns(stmts, budget):
    """continuation form: the statements after an `if` that contains a return move into the branches that did not
    return yet, so that every return is the last statement of its branch"""
    import copy
    for k, s in enumerate(stmts):
        if isinstance(s, ast.Return):
            return stmts[:k + 1]                 # code after a return is dead
        if isinstance(s, ast.If) and (_ret_outside_loops(s.body) or _ret_outside_loops(s.orelse)):
            rest = stmts[k + 1:]
            budget[0] -= len(rest)
            if budget[0] < 0:
                raise _NoLower()
            body = s.body + (copy.deepcopy(rest) if not _always_returns(s.body) else [])
            orelse = s.orelse + (rest if not _always_returns(s.orelse) else [])
            ns = ast.If(s.test, _lower_returns(body, budget) or [ast.Pass()], _lower_returns(orelse, budget))
            return stmts[:k] + [ns]
    return stmts


class _NoLower(Exception):
    pass


def _tail_returns_to_assign(stmts, var):
    """[..., If(all leaves end in return)] -> the returns become assignments to var; True on success"""
    if not stmts:
        return False
    last = stmts[-1]
    if isinstance(last, ast.Return):
        stmts[-1] = ast.Assign([ast.Name(var, ast.Store())], last.value if last.value is not None else ast.Constant(None))
        return True
    if isinstance(last, ast.If) and _always_returns(last.body) and _always_returns(last.orelse):
        return _tail_returns_to_assign(last.body, var) and _tail_returns_to_assign(last.orelse, var)
    return False


def lower_early_returns(fd):
    """`if c: return a` ... `return b` (returns nested in ifs only) -> single exit, so that the ifs can be merged"""
    body = fd.body
    if any(isinstance(n, (ast.For, ast.While, ast.Try, ast.With)) for n in ast.walk(ast.Module(body, []))):
        return False         # only straight-line helper functions: elsewhere a fork at the return is the safe reading
    if not any(isinstance(s, ast.If) and (_ret_outside_loops(s.body) or _ret_outside_loops(s.orelse)) for s in body):
        return False
    import copy
    try:
        new = _lower_returns(copy.deepcopy(body), [200])
    except _NoLower:
        return False
    if not (new and isinstance(new[-1], ast.If) and _always_returns(new[-1:])):
        return False
    if not _tail_returns_to_assign(new, "_rt_retval"):
        return False
    new.append(ast.Return(ast.Name("_rt_retval", ast.Load())))
    fd.body = new
    return True


def _has_continue(stmts):
    for s in stmts:
        if isinstance(s, ast.Continue):
            return True
        if isinstance(s, ast.If):
            if _has_continue(s.body) or _has_continue(s.orelse):
                return True
    return False


def _lam(v):
    return ast.Lambda(ast.arguments([], [], None, [], [], None, []), v)


class Xf(ast.NodeTransformer):
    def __init__(self, merge=True, safe_calls=()):
        self.cnt = 0
        self.merge = merge
        self.safe = set(SAFE_CALLS) | set(safe_calls)
        self.stats = {"merged_if": 0, "fork_if": 0}

    def fresh(self, p):
        self.cnt += 1
        return f"_rt_{p}{self.cnt}"

    # ---- expressions
    def visit_BoolOp(self, node):
        self.generic_visit(node)
        op = "and" if isinstance(node.op, ast.And) else "or"
        return ast.Call(ast.Name("_rt_bo", ast.Load()), [ast.Constant(op)] + [_lam(v) for v in node.values], [])

    def visit_UnaryOp(self, node):
        self.generic_visit(node)
        if isinstance(node.op, ast.Not):
            return ast.Call(ast.Name("_rt_not", ast.Load()), [node.operand], [])
        return node

    def visit_Compare(self, node):
        self.generic_visit(node)
        if len(node.ops) == 1:
            return node
        # chained comparison: middle operands are evaluated once in the original; they are
        # names/constants/subscripts without side effects in this code base
        parts = []
        left = node.left
        for op, comp in zip(node.ops, node.comparators):
            parts.append(ast.Compare(left, [op], [comp]))
            left = comp
        return ast.Call(ast.Name("_rt_bo", ast.Load()), [ast.Constant("and")] + [_lam(v) for v in parts], [])

    def visit_IfExp(self, node):
        self.generic_visit(node)
        return ast.Call(ast.Name("_rt_ite", ast.Load()), [node.test, _lam(node.body), _lam(node.orelse)], [])

    # ---- statements
    def _elim_continue(self, stmts):
        if not _has_continue(stmts):
            return stmts
        flag = self.fresh("skip")

        def rw(lst):
            out = []
            for k, s in enumerate(lst):
                if isinstance(s, ast.Continue):
                    out.append(ast.Assign([ast.Name(flag, ast.Store())], ast.Constant(True)))
                    return out
                if isinstance(s, ast.If) and (_has_continue(s.body) or _has_continue(s.orelse)):
                    out.append(ast.If(s.test, rw(s.body) or [ast.Pass()], rw(s.orelse)))
                    rest = rw(lst[k + 1:])
                    if rest:
                        out.append(ast.If(ast.UnaryOp(ast.Not(), ast.Name(flag, ast.Load())), rest, []))
                    return out
                out.append(s)
            return out
        return [ast.Assign([ast.Name(flag, ast.Store())], ast.Constant(False))] + rw(stmts)

    def _has_break(self, stmts):
        for s in stmts:
            if isinstance(s, ast.Break):
                return True
            if isinstance(s, ast.If) and (self._has_break(s.body) or self._has_break(s.orelse)):
                return True
        return False

    def _rw_break(self, stmts, flag):
        out = []
        for s in stmts:
            if isinstance(s, ast.Break):
                out.append(ast.Assign([ast.Name(flag, ast.Store())], ast.Constant(True)))
                out.append(ast.Continue())
            elif isinstance(s, ast.If):
                out.append(ast.If(s.test, self._rw_break(s.body, flag), self._rw_break(s.orelse, flag)))
            else:
                out.append(s)
        return out

    def visit_For(self, node):
        pre = []
        if self.merge and self._has_break(node.body) and not node.orelse:
            flag = self.fresh("brk")
            pre.append(ast.Assign([ast.Name(flag, ast.Store())], ast.Constant(False)))
            body = self._rw_break(node.body, flag)
            body = self._elim_continue(body)
            node.body = [ast.If(ast.UnaryOp(ast.Not(), ast.Name(flag, ast.Load())), body, [])]
        elif self.merge:
            node.body = self._elim_continue(node.body)
        self.generic_visit(node)
        return pre + [node]

    def visit_While(self, node):
        if self.merge:
            node.body = self._elim_continue(node.body)
        self.generic_visit(node)
        return node

    def visit_If(self, node):
        ok = self.merge and _mergeable(node.body, self.safe) and _mergeable(node.orelse, self.safe)
        names = sorted(_assigned_names(node.body, set()) | _assigned_names(node.orelse, set()))
        self.generic_visit(node)
        if not ok:
            self.stats["fork_if"] += 1
            return node
        self.stats["merged_if"] += 1
        c = self.fresh("c")
        L = lambda n: ast.Name(n, ast.Load())
        S = lambda n: ast.Name(n, ast.Store())

        def grab(dst, src):
            return ast.Try([ast.Assign([S(dst)], L(src))],
                           [ast.ExceptHandler(L("NameError"), None, [ast.Assign([S(dst)], L("_rt_UNB"))])], [], [])
        out = [ast.Assign([S(c)], ast.Call(L("_rt_cond"), [node.test], []))]
        sym = []
        snap = {}
        for n in names:
            snap[n] = self.fresh("s")
            sym.append(grab(snap[n], n))
        sym.append(ast.With([ast.withitem(ast.Call(L("_rt_guard"), [L(c)], []), None)], node.body or [ast.Pass()]))
        tv = {}
        for n in names:
            tv[n] = self.fresh("t")
            sym.append(grab(tv[n], n))
            sym.append(ast.If(ast.Compare(L(snap[n]), [ast.IsNot()], [L("_rt_UNB")]), [ast.Assign([S(n)], L(snap[n]))],
                              [ast.Try([ast.Delete([ast.Name(n, ast.Del())])],
                                       [ast.ExceptHandler(L("NameError"), None, [ast.Pass()])], [], [])]))
        sym.append(ast.With([ast.withitem(ast.Call(L("_rt_guard"), [L(c), ast.Constant(True)], []), None)],
                            node.orelse or [ast.Pass()]))
        for n in names:
            e = self.fresh("e")
            sym.append(grab(e, n))
            sym.append(ast.Assign([S(n)], ast.Call(L("_rt_merge"), [L(c), L(tv[n]), L(e)], [])))
            sym.append(ast.If(ast.Compare(L(n), [ast.Is()], [L("_rt_UNB")]),
                              [ast.Delete([ast.Name(n, ast.Del())])], []))
        conc = ast.If(L(c), node.body or [ast.Pass()], node.orelse)
        out.append(ast.If(ast.Call(L("_rt_issym"), [L(c)], []), sym, [conc]))
        return out


_NO_SHELL_BASE = []


def _init_no_shell():
    import numpy as np
    _NO_SHELL_BASE.append(np.ndarray)


_init_no_shell()


def _rewrite_super(tree):
    for nd in ast.walk(tree):
        if isinstance(nd, ast.Call) and isinstance(nd.func, ast.Name) and nd.func.id == "super" and not nd.args:
            nd.func = ast.Name("_rt_super", ast.Load())


def _unwrap(fn):
    from numba.core.dispatcher import Dispatcher
    if isinstance(fn, Dispatcher):
        fn = fn.py_func
    if isinstance(fn, (staticmethod, classmethod)):
        fn = fn.__func__
    return fn


def source_of(fn):
    fn = _unwrap(fn)
    src = inspect.getsource(fn)
    lines = src.split("\n")
    k = len(lines[0]) - len(lines[0].lstrip())
    if k:
        # like textwrap.dedent, but tolerant of comment lines / string contents at column 0
        lines = [(ln[k:] if ln[:k].strip() == "" else ln) for ln in lines]
    return "\n".join(lines)


def _record(fn, src):
    name = f"{fn.__module__}.{fn.__qualname__}"
    SOURCES[name] = hashlib.sha256(src.encode()).hexdigest()[:16]
    return name


_LEAF = {}


def _names_used(fn):
    """global names a function (and the functions / lambdas nested in it) refers to"""
    out = set()
    stack = [fn.__code__]
    while stack:
        c = stack.pop()
        out |= set(c.co_names)
        stack.extend(k for k in c.co_consts if isinstance(k, types.CodeType))
    return out



def _leaf_kernels(fn):
    """names (in fn's globals) of compiled helper kernels that are safe to call inside a merged `if`: straight-line scalar code
    (assignments, ifs, returns; no loops, no computed slices, no raise, calls only to builtins / other leaf kernels).  Their
    effects are guard-aware (array stores) or local, so running them under a false guard is harmless."""
    from numba.core.dispatcher import Dispatcher
    out = []
    for k, v in getattr(fn, "__globals__", {}).items():
        if isinstance(v, Dispatcher) and _is_leaf(v, fn.__globals__, set()):
            out.append(k)
    return out


def _is_leaf(disp, g, seen):
    from numba.core.dispatcher import Dispatcher
    py = disp.py_func
    if py in _LEAF:
        return _LEAF[py]
    if py in seen:
        return False
    seen.add(py)
    ok = True
    try:
        fd = ast.parse(source_of(py)).body[0]
    except (OSError, TypeError, SyntaxError, IndexError):
        ok = False
        fd = None
    if fd is not None:
        fd.decorator_list = []
        for n in ast.walk(ast.Module(fd.body, [])):
            if isinstance(n, (ast.For, ast.While, ast.Raise, ast.Try, ast.With, ast.Lambda, ast.ListComp, ast.GeneratorExp, ast.Yield, ast.Global, ast.Nonlocal)):
                ok = False
            elif isinstance(n, ast.Slice):
                for b in (n.lower, n.upper, n.step):
                    if b is not None and not isinstance(b, ast.Constant):
                        ok = False
            elif isinstance(n, ast.Call):
                f = n.func
                if not isinstance(f, ast.Name):
                    ok = False
                elif f.id not in SAFE_CALLS:
                    callee = g.get(f.id)
                    if not (isinstance(callee, Dispatcher) and _is_leaf(callee, g, seen)):
                        ok = False
            if not ok:
                break
    _LEAF[py] = ok
    return ok


def transform(fn, overrides=None, _memo=None, merge=True, also=(), safe_calls=(), owner=None):
    """Return the working tree's `fn` re-compiled from source with the merging pass applied and
    its module globals replaced by shims / transformed kernels."""
    from numba.core.dispatcher import Dispatcher
    if overrides is None:
        overrides = core.install_builtins()
    if _memo is None:
        _memo = {}
    is_kernel = isinstance(fn, Dispatcher)
    fn = _unwrap(fn)
    if fn in _memo:
        return _memo[fn]
    src = source_of(fn)
    _record(fn, src)
    tree = ast.parse(src)
    fd = tree.body[0]
    fd.decorator_list = []
    if merge:
        lower_early_returns(fd)
    xf = Xf(merge=merge, safe_calls=tuple(safe_calls) + tuple(_leaf_kernels(fn)))
    tree = xf.visit(tree)
    if "_rt_super" in overrides:
        _rewrite_super(tree)
    cls_name = None
    qn = fn.__qualname__.split(".")
    g = dict(fn.__globals__)
    if len(qn) >= 2 and qn[-2] != "<locals>":
        cls_name = qn[-2]
        real_cls = owner if owner is not None else fn.__globals__.get(cls_name)
        bases = []
        if isinstance(real_cls, type):
            # class shell: same name (private-name mangling), subclass of the real class;
            # zero-argument super() skips the real class itself
            g["_rt_real_cls"] = real_cls
            first = fd.args.args[0].arg if fd.args.args else None
            if first:
                for nd in ast.walk(tree):
                    if isinstance(nd, ast.Call) and isinstance(nd.func, ast.Name) and nd.func.id == "super" and not nd.args:
                        nd.args = [ast.Name("_rt_real_cls", ast.Load()), ast.Name(first, ast.Load())]
            if not issubclass(real_cls, tuple(_NO_SHELL_BASE)):
                bases = [ast.Name("_rt_real_cls", ast.Load())]
        tree = ast.Module([ast.ClassDef(cls_name, bases, [], tree.body, [], [])], [])
        tree.body[0].type_params = []
    ast.fix_missing_locations(tree)
    g.update(RT)
    if fn.__closure__:
        for name, cell in zip(fn.__code__.co_freevars, fn.__closure__):
            try:
                g[name] = cell.cell_contents
            except ValueError:
                pass
    code = compile(tree, f"<symx:{fn.__module__}.{fn.__qualname__}>", "exec")
    loc = {}
    exec(code, g, loc)
    if cls_name:
        cd = loc[cls_name].__dict__
        mangled = f"_{cls_name.lstrip('_')}{fd.name}" if fd.name.startswith("__") and not fd.name.endswith("__") else fd.name
        newf = cd[fd.name] if fd.name in cd else cd[mangled]
    else:
        newf = loc[fd.name]
    if isinstance(newf, (staticmethod, classmethod)):
        newf = newf.__func__
    if cls_name:
        newf._shell = loc[cls_name]
    if fn.__defaults__ and not newf.__defaults__:
        newf.__defaults__ = fn.__defaults__
    if is_kernel:
        inner = newf

        def kernel_wrapper(*a, **k):
            core.NUMBA_DEPTH += 1
            try:
                return inner(*a, **k)
            finally:
                core.NUMBA_DEPTH -= 1
        kernel_wrapper.__name__ = getattr(inner, "__name__", "kernel")
        kernel_wrapper._stats = xf.stats
        kernel_wrapper._inner = inner
        newf = kernel_wrapper
    _memo[fn] = newf
    for k, v in list(g.items()):
        if isinstance(v, Dispatcher):
            g[k] = transform(v, overrides, _memo, merge, (), safe_calls)
        elif k in also and isinstance(v, types.FunctionType):
            g[k] = transform(v, overrides, _memo, merge, also, safe_calls)
        elif isinstance(v, types.FunctionType) and v.__module__ == fn.__module__ and k in _names_used(fn) and k not in overrides:
            # a plain Python helper of the same module that this function calls (e.g. extracted by a refactoring): it must see the
            # same shims, so it is re-compiled from the working tree as well; if that is not possible it stays native
            try:
                g[k] = transform(v, overrides, _memo, merge, also, safe_calls)
            except Exception:
                pass
    g.update(overrides)
    if not cls_name:
        g[fd.name] = newf
    newf._stats = xf.stats
    newf._globals = g
    STATS[f"{fn.__module__}.{fn.__qualname__}"] = dict(xf.stats)
    return newf


def extract_loop_body(fn, overrides=None, which=0, merge=True, name="step", drop_tail=0):
    """Body of the `which`-th top-level loop of the real function as a function of the locals it
    reads, returning a dict of the locals it writes (inductive-step mode)."""
    from numba.core.dispatcher import Dispatcher
    if overrides is None:
        overrides = core.install_builtins()
    fn = _unwrap(fn)
    src = source_of(fn)
    _record(fn, src)
    tree = ast.parse(src)
    fd = tree.body[0]
    loops = [s for s in fd.body if isinstance(s, (ast.For, ast.While))]
    loop = loops[which]
    params = [a.arg for a in fd.args.args]
    assigned = set(params)
    for n in ast.walk(fd):
        if isinstance(n, ast.Name) and isinstance(n.ctx, ast.Store):
            assigned.add(n.id)
    loaded, stored = set(), set()
    body = loop.body[:len(loop.body) - drop_tail] if drop_tail else loop.body
    for s in body:
        for n in ast.walk(s):
            if isinstance(n, ast.Name):
                (loaded if isinstance(n.ctx, ast.Load) else stored).add(n.id)
    if isinstance(loop, ast.For):
        for n in ast.walk(loop.target):
            if isinstance(n, ast.Name):
                loaded.add(n.id)
    args = sorted((loaded | stored) & assigned)
    # `continue` at the top level of the loop body ends the step
    xf = Xf(merge=merge, safe_calls=tuple(_leaf_kernels(fn)))
    body = xf._elim_continue(body) if merge else body
    ret = ast.Return(ast.Dict([ast.Constant(k) for k in sorted(stored)],
                              [ast.Call(ast.Attribute(ast.Call(ast.Name("locals", ast.Load()), [], []), "get", ast.Load()),
                                        [ast.Constant(k)], []) for k in sorted(stored)]))
    newfd = ast.FunctionDef(name, ast.arguments([], [ast.arg(a) for a in args], None, [], [], None, []),
                            body + [ret], [], None)
    newfd.type_params = []
    mod = ast.Module([newfd], [])
    mod = xf.visit(mod)
    ast.fix_missing_locations(mod)
    g = dict(fn.__globals__)
    memo = {}
    for k, v in list(g.items()):
        if isinstance(v, Dispatcher):
            g[k] = transform(v, overrides, memo, merge)
    g.update(RT)
    g.update(overrides)
    loc = {}
    exec(compile(mod, f"<symx-step:{fn.__qualname__}>", "exec"), g, loc)
    stepf = loc[name]
    stepf._stats = xf.stats
    return stepf, args


def parse_fn(fn):
    """(FunctionDef, python function) of the working tree's source of fn"""
    fn = _unwrap(fn)
    src = source_of(fn)
    _record(fn, src)
    return ast.parse(src).body[0], fn


def body_wo_doc(fd):
    b = list(fd.body)
    if b and isinstance(b[0], ast.Expr) and isinstance(b[0].value, ast.Constant) and isinstance(b[0].value.value, str):
        b = b[1:]
    return b


def extract_block(fn, pick, overrides=None, merge=True, name="block", extra_args=()):
    """Compile a list of statements of the real function (chosen by pick(FunctionDef) from the freshly
    parsed source) into a function of the locals they read, returning a dict of the locals they write
    (and `_ret_` for a top-level return)."""
    from numba.core.dispatcher import Dispatcher
    if overrides is None:
        overrides = core.install_builtins()
    fd, fn = parse_fn(fn)
    try:
        stmts = list(pick(fd))
    except (IndexError, KeyError, AttributeError, TypeError) as ex:
        raise core.StructureMismatch(f"{fn.__qualname__}: the statements this harness cuts out were not found ({type(ex).__name__}: {ex})")
    params = [a.arg for a in fd.args.args]
    assigned = set(params)
    for n in ast.walk(fd):
        if isinstance(n, ast.Name) and isinstance(n.ctx, ast.Store):
            assigned.add(n.id)
    loaded, stored = set(), set()
    body = []
    for s_ in stmts:
        if isinstance(s_, ast.Return):
            s_ = ast.Assign([ast.Name("_ret_", ast.Store())], s_.value or ast.Constant(None))
            stored.add("_ret_")
            body.append(s_)
            break
        body.append(s_)
    for s_ in body:
        for n in ast.walk(s_):
            if isinstance(n, ast.Name):
                (loaded if isinstance(n.ctx, ast.Load) else stored).add(n.id)
            if isinstance(n, ast.AugAssign) and isinstance(n.target, ast.Name):
                loaded.add(n.target.id)
    args = sorted((loaded & assigned) | set(extra_args))
    xf = Xf(merge=merge, safe_calls=tuple(_leaf_kernels(fn)))
    body = xf._elim_continue(body) if merge else body
    ret = ast.Return(ast.Dict([ast.Constant(k) for k in sorted(stored)],
                              [ast.Call(ast.Attribute(ast.Call(ast.Name("locals", ast.Load()), [], []), "get", ast.Load()),
                                        [ast.Constant(k)], []) for k in sorted(stored)]))
    newfd = ast.FunctionDef(name, ast.arguments([], [ast.arg(a) for a in args], None, [], [], None, []),
                            body + [ret], [], None)
    newfd.type_params = []
    mod = ast.Module([newfd], [])
    mod = xf.visit(mod)
    if "_rt_super" in overrides:
        _rewrite_super(mod)
    ast.fix_missing_locations(mod)
    g = dict(fn.__globals__)
    memo = {}
    for k, v in list(g.items()):
        if isinstance(v, Dispatcher):
            g[k] = transform(v, overrides, memo, merge)
    g.update(RT)
    g.update(overrides)
    loc = {}
    exec(compile(mod, f"<symx-block:{fn.__qualname__}>", "exec"), g, loc)
    f = loc[name]
    f._stats = xf.stats
    f._args = args
    f._src = "\n".join(ast.unparse(s_) for s_ in stmts)
    return f


class _Unset:
    """placeholder for a local the caller did not provide: any use is a harness error"""

    def _boom(self, *a, **k):
        raise core.StructureMismatch("extracted block read a local that the harness did not provide")
    __getattr__ = __add__ = __radd__ = __sub__ = __rsub__ = __mul__ = __rmul__ = __lt__ = __le__ = __gt__ = __ge__ = _boom
    __getitem__ = __setitem__ = __call__ = __bool__ = __index__ = __iter__ = __len__ = __floordiv__ = __mod__ = __neg__ = _boom

    def __eq__(self, o):
        self._boom()

    def __ne__(self, o):
        self._boom()
    __hash__ = None


UNSET = _Unset()


def call_block(f, **kw):
    """call an extracted block with keyword state; names the block mentions but the caller did not give are
    passed as UNSET (reading one is a harness error, overwriting it is fine)"""
    out = f(**{a: kw.get(a, UNSET) for a in f._args})
    return _Out(out) if isinstance(out, dict) else out


class _Out(dict):
    """locals written by a block; asking for a name the block does not assign is a structure mismatch"""

    def __missing__(self, key):
        raise core.StructureMismatch(f"the extracted block does not assign {key!r}")
