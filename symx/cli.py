"""./check <id> <quick|thorough> | ./check <id> --replay <file>"""
from __future__ import annotations

import importlib
import json
import os
import sys
import time


def main(argv):
    if len(argv) < 2:
        print("usage: check <property id> <quick|thorough> | check <id> --replay <file>")
        return 2
    prop = argv[0].upper()
    os.environ.setdefault("NUMBA_CACHE_DIR", os.path.join(os.path.dirname(os.path.dirname(os.path.abspath(__file__))), ".cache", "numba"))
    os.environ.setdefault("NUMBA_DISABLE_PERFORMANCE_WARNINGS", "1")
    sys.dont_write_bytecode = True
    mod = importlib.import_module(f"harness.{prop.lower()}")
    if argv[1] == "--replay":
        w = json.load(open(argv[2]))
        bad, info = mod.replay(w["witness"])
        print(json.dumps(dict(reproduces=bool(bad), observed=info), default=str))
        return 1 if bad else 0
    tier = argv[1]
    if tier not in ("quick", "thorough"):
        print("tier must be quick or thorough")
        return 2
    from symx import runner
    t0 = time.time()
    os.environ["VERIF_TIER"] = tier
    jobs = mod.jobs(tier)
    only = os.environ.get("VERIF_ONLY")
    if only:
        jobs = [j for j in jobs if only in j.name]
    print(f"{prop} {tier}: {len(jobs)} jobs on {runner.NPROC} workers", flush=True)
    results = runner.run_jobs(jobs)
    m = mod.meta(tier)
    return runner.finish(prop, tier, results, t0, m["bounds"], m["outside"], m["assumptions"], m["stubs"],
                         level=m.get("level", "model_checking"), extra=m.get("extra"))


if __name__ == "__main__":
    sys.exit(main(sys.argv[1:]))
