#!/bin/bash
# Creates .venv next to this script (normally /verif/.venv): an overlay over /venv (repo deps, numba, numpy) plus z3-solver and cvc5
# from the offline wheelhouse. Idempotent; safe to call from every check.
set -e
HERE="$(cd "$(dirname "$(readlink -f "$0")")" && pwd -P)"
V="$HERE/.venv"
if [ -x "$V/bin/python" ] && "$V/bin/python" -c "import z3, numba, moptipyapps" >/dev/null 2>&1; then
  exit 0
fi
(
  flock 9
  if [ -x "$V/bin/python" ] && "$V/bin/python" -c "import z3, numba, moptipyapps" >/dev/null 2>&1; then
    exit 0
  fi
  rm -rf "$V"
  /venv/bin/python -m venv "$V"
  SP=$("$V/bin/python" -c "import sysconfig; print(sysconfig.get_paths()['purelib'])")
  echo "import site; site.addsitedir('/venv/lib/python3.12/site-packages')" > "$SP/_base.pth"
  PIP_NO_INDEX=1 "$V/bin/pip" install -q --no-index --no-deps --find-links /opt/veriftools/wheels z3-solver cvc5 >/dev/null
  "$V/bin/python" -c "import z3, cvc5, numba, moptipyapps; print('verif venv ok: z3', z3.get_version_string())"
) 9>"$HERE/.venv.lock"
