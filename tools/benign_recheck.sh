#!/bin/bash
# tools/benign_recheck.sh <name> <prop> [more props]: re-apply a kept behaviour-preserving patch (/verif/benign/<name>/patch.diff) to a scratch
# worktree of /repo HEAD and run the quick checks against it (VERIF_REPO); expected exit 0.  Updates benign/<name>/meta.json.
name=$1; shift
wt=/tmp/benignwt_$$
git -C /repo worktree add -q --detach $wt HEAD || exit 3
( cd $wt && git apply /verif/benign/$name/patch.diff ) || { echo "$name: patch does not apply"; git -C /repo worktree remove --force $wt; exit 3; }
mkdir -p $wt/_seed; cp /verif/benign/$name/agent_meta.json $wt/_seed/meta.json 2>/dev/null
cd /verif && tools/refactor_check.sh $name $wt "$@"
git -C /repo worktree remove --force $wt
