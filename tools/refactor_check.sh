#!/bin/bash
# tools/refactor_check.sh <name> <worktree> <prop> [more props...]: keep a behaviour-preserving change made by a sub-agent
# (patch.diff, agent meta) under /verif/benign/<name>/ and run the quick checks against the scratch worktree (VERIF_REPO): expected exit 0
name=$1; wt=$2; shift 2
d=/verif/benign/$name; mkdir -p $d
git -C $wt diff -- moptipyapps > $d/patch.diff
cp $wt/_seed/meta.json $d/agent_meta.json 2>/dev/null
res=""
for p in "$@"; do
  VERIF_REPO=$wt VERIF_EVIDENCE_DIR=/tmp/benign_ev_$$ ./check $p quick > /tmp/_benign_${name}_$p.log 2>&1; rc=$?
  echo "$name: ./check $p quick on the refactored tree: exit=$rc"
  grep -E "^VIOLATION|^INCONCLUSIVE" /tmp/_benign_${name}_$p.log | cut -c1-300 | head -5
  res="$res $p:$rc"
done
rm -rf /tmp/benign_ev_$$
python3 - "$d" "$name" "$res" <<'PY'
import json, sys, os
d, name, res = sys.argv[1:4]
am = {}
try: am = json.load(open(os.path.join(d, "agent_meta.json")))
except Exception: pass
m = dict(name=name, kind="behaviour-preserving refactoring (sub-agent, property text only)", files_changed=am.get("files_changed"), kinds_of_edits=am.get("kinds_of_edits"),
         why_equivalent=am.get("why_equivalent"), agent_tests=am.get("tests_run"), differential_check=am.get("differential_check"),
         checks={k: int(v) for k, v in (x.split(":") for x in res.split())}, expected="exit 0 for every check")
json.dump(m, open(os.path.join(d, "meta.json"), "w"), indent=1)
PY
