#!/usr/bin/env python3
"""Regenerates MANIFEST.json from the table below (kept in one place so it is always valid)."""
import json, os
ROOT = os.path.dirname(os.path.dirname(os.path.abspath(__file__)))
TECH = "bounded symbolic execution of the real Python source (symx: proxy values, path forking + ite merging) with z3 (Int->BV exact translation / LIA); counterexamples replayed on the compiled code"
CLAIMED = {
 "C07": dict(
   text="Within the bounds (n in {2,4}, rounds in {1,2}; all plans with entries -n..n; quick: settings of the shipped four-team instances, thorough: all admissible settings) the solver shows for the real count_errors source: value >= 0, value = 0 <=> feasible schedule (independent declarative oracle), value >= 1 for inconsistent plans, value = documented per-rule count on mutually consistent plans, value <= upper_bound(). Bounded model checking is the right level: the kernel is a control-heavy integer state machine whose rare inputs (self-play, streaks at the last day, separation edges) are exactly what sampling misses.",
   note="Trusted: z3; the numpy/numba model of DESIGN 3.2/3.6 (validated per run by a differential self-test against the compiled kernel and by replaying every model); plans with out-of-range accesses are excluded here and reported under C13. documented-count clause for 6 days only in the thorough tier (case split over the first two days).",
   design="4/C07"),
}
CLAIMED["C08"] = dict(
   text="Definition and bounds of the travel length by induction over the kernel's own loop structure: each piece of the real game_plan_length source (prologue, start-at-home, one day, trip home, return) is run from an arbitrary state satisfying a stated invariant and must add exactly the step of the declarative tournament walk and re-establish the invariant (n up to 8 quick / 16 thorough, all plans -n..n, symbolic distances 0..10^6, bye penalty and bounds from the real GamePlanLength methods); whole-kernel cross-checks at n=2; bye clause by two symbolic runs per concrete position (n=4); optimum clause for the shipped four-team instances by the solver over all plans (no error-free plan below the published optimum: unsat; one of exactly that length: sat, replayed).",
   note="Trusted: z3; the numpy/numba model (self-test against the compiled kernel per run); the composition of the five pieces into the whole kernel is the usual loop induction and is guarded by a structural check of the AST (exit 2 if the loop structure changes) and by whole-run queries at n=2.",
   design="4/C08")
CLAIMED["C13"] = dict(
   text="Every array access executed while the real kernel source runs on symbolic inputs carries the obligation -len <= index < len; per kernel the solver is asked for an input accepted by the public space that breaks one (unsat = no such input within the bound). Models are replayed through the public API in a fresh interpreter under NUMBA_BOUNDSCHECK=1.",
   note="Covers the kernels listed in the evidence of the run (TTP: count_errors, game_plan_length, map_games; further kernels are added as their harnesses are built). Trusted: z3, the array shim's index semantics (negative wrap).",
   design="4/C13")
CLAIMED["C15"] = dict(
   text="Decoder: the body of the real map_games loop is run once from an arbitrary mutually consistent plan (entries -n..n, no self-play) with an arbitrary game code; the solver shows that the game lands on the earliest day on which both teams are free, that exactly the two cells are written consistently, that nothing else changes and that the invariant is kept (n<=8, rounds<=2 quick; n<=12, rounds<=4 thorough); the real prefix zeroes arbitrary garbage; whole-run cross-check against a declaratively defined plan for small sizes. Search space: counting properties of the real blueprint for enumerated (n, rounds) - configuration enumeration, labelled as such.",
   note="Trusted: z3, array shim; lifting the step to whole decodings is loop induction (cross-checked by whole-run queries at (2,2),(3,1),(3,2)). The search-space half is enumeration of configurations, not a solver verdict.",
   design="4/C15")
CLAIMED["C01"] = dict(
   text="Whole decoders through the public API (Encoding(instance).decode(x, y)) for every signed permutation with repetition of up to 3 (thorough 4) items, with bin and item sizes fully symbolic in 1..10^12 (so every storage type int8..int64 and its edges is inside one query family), instance built by the real constructor run symbolically, destination packing and scratch arrays starting as arbitrary garbage; the solver shows the decoded rows satisfy an independent declarative feasibility oracle (ids/multiplicities, orientation, inside the bin, pairwise disjoint per bin, bins 1..k, count k). Every array store carries a fits-the-dtype obligation. A separate job shows the real constructor accepts exactly the documented instance domain.",
   note="Trusted: z3; numpy/numba model (self-test against the compiled encoders per run; every counterexample replayed through the real public API in a fresh interpreter with a time limit, non-termination counts as violation). Quick tier enumerates permutations up to relabelling of interchangeable item rows. Outside: more than 3 (4) items.",
   design="4/C01")
CLAIMED["C04"] = dict(
   text="PackingSpace.validate run natively on a symbolic instance (real constructor) and an arbitrary integer matrix of the packing shape (every cell any value of the instance dtype, n_bins 0..rows+1), up to 2 (thorough 3) rows: on every accepting path the solver shows the declarative feasibility oracle holds, on every rejecting path that it fails; type/shape/dtype/instance-identity clauses on four concrete configurations of the real code.",
   note="Trusted: z3; array shim; check_int_range re-implemented from its documentation. Outside: more rows; the text round trip is claimed under C19. Two genuine defects found by this check were repaired (see known_findings.json).",
   design="4/C04")
CLAIMED["C02"] = dict(
   text="For each of the seven objectives the real __init__/evaluate/lower_bound/upper_bound/to_bin_count run on a symbolic instance (real constructor; lower_bound_bins any value in 1..k) and an arbitrary FEASIBLE packing (declarative oracle: unsorted rows, any bin numbering, sparse last bin) of up to 3 rows; per path the solver shows value = closed form of the documented definition (column-wise skyline), lower_bound() <= value <= upper_bound(), to_bin_count(value) = bins and 1 <= value-(bins-1)*scale <= scale, which gives strict ordering by bins. Counting objectives with sizes up to 10^12; area/skyline objectives with bin dims <= 6 (4 for 3 rows under a skyline) through the exact Int->BV back-end.",
   note="Trusted: z3 (QF_BV + LIA portfolio), array shim, ceil_div re-implemented. Quick tier: one item type per row, LowestSkyline with 3 rows only in thorough. Outside: more rows, larger dims for nonlinear objectives, packing_result cross-objective agreement.",
   design="4/C02")
CLAIMED["C14"] = dict(
   text="Differential harness: the real decoders (public API, destination packing and scratch arrays starting as arbitrary garbage) against an executable reference model written from the module documentation (harness/ibl_reference.py), both executed by the same engine on the same symbolic instance (sizes 1..10^12) for every signed permutation of up to 3 (thorough 4) items; all six columns of every row and the bin count must agree on every path. Because the reference never reads the garbage, agreement implies independence from earlier decodings; a concrete reuse test of one encoder object and destination is run in addition.",
   note="Trusted: z3; the reference model is my reading of the documentation (kept short, exercised by the doctest examples through the reuse job); numpy/numba model as in C01. Quick tier enumerates permutations up to relabelling of interchangeable rows.",
   design="4/C14")
CLAIMED["C03"] = dict(
   text="The optimum is NP-hard, so the solver is the oracle: for every instance of an exhaustive small family (bins W,H<=6 with every 4-multiset of item shapes, W,H<=8 with every triple, W,H<=14 with every pair; 1.4 million instances in the quick tier) the real constructor computes lower_bound_bins, and whenever it exceeds the area bound the query 'exists a feasible packing with rotation into lower_bound_bins-1 bins' (all placements, rotations and bin assignments symbolic) must be unsat; lower_bound_bins >= ceil(area/bin area) is checked on every instance and the constructor's own ceiling arithmetic on symbolic totals. Thorough adds 5-multisets, larger pairs and seeded random instances up to 8 items.",
   note="The instance side of the quantifier is ENUMERATED (exhaustive small family / seeded sample), said so; the packing side is decided by z3. Trusted: z3, the declarative packing model (witness packings are re-checked by plain Python). Not built: __lb_q/__cutsq on fully symbolic inputs.",
   design="4/C03")
CLAIMED["C05"] = dict(
   text="The real tsp.Instance constructor runs symbolically on an arbitrary n x n matrix (n<=4, thorough 6; entries 0..10^12, symmetric and asymmetric), rejected matrices end their path; on accepting paths the solver shows: stored cell = given cell and fits the chosen dtype (symbolic dtype model), is_symmetric <=> matrix symmetric, and for a symbolic permutation TourLength.evaluate = cyclic edge sum, lower_bound() <= value <= upper_bound(), accumulator within int64.",
   note="Trusted: z3; int_range_to_dtype threshold model (validated per run); np.copyto('unsafe') modelled as 'fits -> unchanged, else arbitrary value of the dtype'. Outside: n>6, upper_bound_range_multiplier != 1.",
   design="4/C05")
CLAIMED["C06"] = dict(
   text="The real solve() methods of the (1+1) EA and FEA run with a stub process on a symbolic symmetric instance (n<=6, thorough 7): start tour = arbitrary permutation, integers() = arbitrary value, 1-3 loop iterations; every register(x, y) observed must pass a permutation and its exact tour length, the EA's values never increase, every FEA table index lies in 0..upper bound AND inside the table the code allocated (table modelled as a z3 array of the allocated symbolic length). This drives the move filter and both kernels, including i=0 and j=n-2.",
   note="Trusted: z3 (arrays+LIA), stubs of Process/Generator listed in the evidence. Each iteration starts from an arbitrary (permutation, exact length) pair, so the step covers runs of any length by induction. Outside: asymmetric instances.",
   design="4/C06")
CLAIMED["C09"] = dict(
   text="Objective: the real _evaluate source on fully symbolic matrices equals sum f_ij*d_{p(i)p(j)} for every permutation (n<=4, term-level identity). Instance: the real Instance.__init__ (trivial_bounds with a sorting network, dtype selection, astype) run with one matrix from a seeded concrete pool (incl. all-zero, ties) and the other symbolic, both roles, all permutations: stored matrices = given and fit the dtype, lower <= value <= upper. Loader: from_qaplib_stream on QAPLIB text whose numbers are symbolic and whose wrapping into lines is decided by forking at every token boundary (all 128 wrappings for n=2): size, flows first, distances second.",
   note="Trusted: z3; sorting-network/astype/multiply shims; the compiled kernel accumulates in float64 for unsigned dtypes - exact below 2^53 which the property's bound 10^15 implies. Outside: instance clauses with BOTH matrices symbolic (unknown at 300 s already for n=2), digit-level parsing. Two genuine defects found and repaired (known_findings.json).",
   design="4/C09")
CLAIMED["C16"] = dict(
   text="Real-arithmetic equivalence of the real kernels (z3 Real; arctan/exp uninterpreted): polynomial controllers: the coefficient of every parameter is obtained by substitution and must be a distinct monomial, and the map parameter->monomial must be a bijection onto ALL monomials of degree 1..d; partially linear controllers: output = linear law of an anchor at minimal squared distance (nonlinear products abstracted to uninterpreted terms, counterexamples realised constructively and replayed); peaks and generated ANNs (text captured from the real CodeGenerator, ~300 architectures in quick: inputs 2..6, outputs 1..6, 0..3 hidden layers of width 1..8) = the network evaluated layer by layer with the documented parameter layout and parameter count; Stuart-Landau and Lorenz = the published equations; no kernel writes state/params or leaves its arrays.",
   note="Reals stand in for floats: the claim is algebraic (the compiled kernels use fastmath, so their float result is association dependent anyway). Outside: min_ann, predefined controllers, the coupled-oscillator equations (no independent source offline). Two genuine defects found and repaired.",
   design="4/C16")
CLAIMED["C20"] = dict(
   text="(partial) swap_distance: the real source on two symbolic permutations (length <= 6, thorough 7) returns n minus the number of cycles of p2 o p1^-1, cycles counted declaratively by iterated selects; that this number is the minimum number of transpositions is Cayley's theorem, re-confirmed by exhaustive BFS for n <= 6 together with the compiled kernel (enumeration, labelled). from_sequence_and_distance: the real source on <= 6 abstract objects with a symbolic pseudo-metric distance table (Instance constructor replaced by a recorder): recorded matrix = distances among the kept representatives, every original object mapped to a kept object at distance 0, kept objects pairwise at positive distance.",
   note="Outside: the flow construction in Instance.__init__ (scipy rankdata, float powers/rounding) - only exercised when a from_sequence counterexample is replayed; |i-j| distances. Trusted: z3, argsort-of-permutation = inverse.",
   design="4/C20")
CLAIMED["C17"] = dict(
   text="(partial) The real InstanceDecoder.decode runs on concrete small templates with every x entry abstracted to its sign plus an arbitrary integer truncation of each product int(k*x_i) (an over-approximation of all floats in [-1,1], including -1, 0, 1 and their neighbours): on every path the recorded instance keeps the suffixed name, the bin, the item count, item sizes within the bin, equal items merged, and (min_bins-1)*A < total area <= min_bins*A; an IndexError/ZeroDivisionError is a violation. Models are turned into float vectors that reproduce every recorded truncation and replayed through InstanceSpace + InstanceDecoder (lower_bound_bins == min_bins, decoding twice equal). The Errors objective is cross-checked concretely.",
   note="Outside: hardness objectives, the seeded shuffle, larger templates; lower_bound_bins == min_bins symbolically (needs C03). Spurious abstract models are discarded (inconclusive, never a violation). One genuine defect found and repaired.",
   design="4/C17")
CLAIMED["C18"] = dict(
   text="(partial) Explicit formats: the real _matrix_from_edge_weights / __read_n_ints / __line_to_nums run on text whose numbers are symbolic (opaque atom tokens) and whose wrapping into lines is decided by forking at every token boundary: for FULL_MATRIX, UPPER_ROW, LOWER_DIAG_ROW, UPPER_DIAG_ROW and n <= 4 the k-th number lands in the cell TSPLIB95 prescribes (hence the formats agree on a common matrix). Round trip: a symbolic instance (real constructor) written by the real to_stream and read by the real _from_stream returns name, size, symmetry flag and matrix. Tour parser: arbitrary node sequences are accepted iff they are permutations of 1..max and then returned shifted by one.",
   note="Outside: EUC_2D/CEIL_2D/ATT/GEO coordinate distances (float sqrt/cos/acos: not encodable here) and the fact that every shipped tour has the documented length (a statement about shipped data). Numbers travel as opaque atoms (digit-level formatting assumed).",
   design="4/C18")
CLAIMED["C19"] = dict(
   text="(partial) Numbers travel through the real string code as opaque atom tokens. Instance.to_compact_str/from_compact_str: symbolic instance (real constructor, <= 3 item types, multiplicity 1 and > 1, sizes up to 10^12) -> equal matrix, dtype, bin, counts and total area (both sides run the real constructor), a ValueError on reading back is a violation. PackingSpace.to_str/from_str: every feasible packing of <= 2 rows round-trips (from_str re-validates with the real validate). GamePlan.__str__ + GamePlanSpace.from_str: plans of n in {2,4} with symbolic magnitudes under five fixed sign patterns. Orderings and InstanceSpace text forms: concrete round trips through the real API only.",
   note="Outside: CSV writers/readers of packing_result / packing_statistics (moptipy EndResult CSV, pycommons CSV scopes, float formatting) - no bounded integer core to encode; digit-level formatting (str(int)/int(str) assumed inverse).",
   design="4/C19")
CLAIMED["C10"] = dict(
   text="(PARTIAL: the solver-decidable fragments) (a) j_from_ode: the real kernel on a symbolic simulation matrix (2-4 rows, 1-3 state dims, 1-2 control dims, every use_state_dims; reals) equals the documented time-weighted sum of squared states and gamma-weighted squared controls divided by T, writes every destination cell exactly once and stays in range; (b) IEEE lemma in z3 QF_FP: (v*v)*(w*gamma) is not NaN and >= 0 for the magnitudes the kernel admits; (d) the real run_ode with scipy's RK45/DenseOutput, controller and equations replaced by nondeterministic stubs: it returns within 5 cycles, and the result is either the failure row or `steps` rows with the start state first, strictly increasing linspace times up to the limit, every entry in (-1e10,1e10) and every control entry = controller(state, time). Stub-level counterexamples are replayed on a battery of concrete systems through the real RK45.",
   note="Outside (the bulk of the property's numerical content): termination/accuracy of scipy's RK45, NaN/inf values, agreement with analytic solutions (one concrete case), diff_from_ode numerics. Assumes RK45 never reports 'failed' while the state function saw only in-range values (with it run_ode would ENLARGE max_time to nextafter(inf); could not be reproduced with a concrete system - recorded in DESIGN.md as an observation).",
   design="4/C10")
CLAIMED["C11"] = dict(
   text="(modulo stubs) One operation of the real FigureOfMerit/FigureOfMeritLE code (evaluate, initialize, set_raw, set_model, get_differentials) is run from an ARBITRARY object state satisfying a stated invariant (equations real/model; collect <=> real equations and model mode supported; both data collections of equal length; arbitrary garbage in the internal results array) with run_ode/j_from_ode/diff_from_ode as uninterpreted functions of (training case, equations, x): evaluate returns exactly mean (or exp(mean(log(J+1)))-1) of the per-case values or 1e200 at the first case outside [0,1e100], a value in [0,1e100] u {1e200}; the invariant is re-established; recorded data is unchanged in model mode and grows by exactly the number of completed cases otherwise; every mutator has its documented effect. Histories of any length follow by induction. Symbolic findings are replayed as operation sequences on the real objects against fresh objects.",
   note="Outside: history dependence below the Python level, the real run_ode (C10), SurrogateOptimizer.solve as a whole, NaN. Trusted: z3; the private-field layout is read from the working tree's constructor.",
   design="4/C11")
NA = {
 "C12": "quantifies over complete optimisation runs (moptipy Execution/Process, RNG streams, log files, budgets): no bounded symbolic encoding within reach; its solver-decidable ingredients are claimed under C01, C02, C04-C06, C19",
}
NOT_BUILT = "not claimed"
def main():
    props = [json.loads(l)["id"] for l in open(os.path.join(ROOT, "properties.jsonl"))]
    checks = []
    for p in props:
        if p in CLAIMED:
            c = CLAIMED[p]
            checks.append(dict(property_id=p, quick_cmd=f"./check {p} quick", thorough_cmd=f"./check {p} thorough",
                               evidence_file=f"/verif/evidence/{p}.json", replay_cmd_template=f"./check {p} --replay {{path}}",
                               engine="symx", level_claimed=dict(category=c.get("category", "model_checking"), text=c["text"], design_ref=c["design"]),
                               level_note=c["note"], technique=c.get("technique", TECH)))
    na = [dict(property_id=p, reason=NA.get(p, NOT_BUILT)) for p in props if p not in CLAIMED]
    m = dict(version=1, setup_cmd="./bootstrap.sh",
             hooks=dict(guard="MOPTIPYAPPS_VERIF", enable="no source hooks are needed: the engine imports and re-executes the working tree's source; ./check exports MOPTIPYAPPS_VERIF=1 for uniformity",
                        baseline_off_cmd="cd /repo && /venv/bin/python -m pytest -ra -q -p no:cacheprovider --timeout=900 --continue-on-collection-errors",
                        source_commits=[], add_only=True),
             engines=[dict(name="symx", path="/verif/symx", serves_properties=sorted(CLAIMED), kind_free_text="symbolic execution of the repository's Python source on z3 proxy values; SMT back-ends z3 (QF_BV via exact Int->BV translation, LIA/NIA), cvc5 second opinion")],
             checks=checks, not_applicable=na,
             notes="Exit codes: 0 held (KNOWN-FINDING lines allowed), 1 VIOLATION (replayed on the real code), 2 inconclusive/harness error. Known findings: /verif/known_findings.json.")
    json.dump(m, open(os.path.join(ROOT, "MANIFEST.json"), "w"), indent=1)
    print("claimed", sorted(CLAIMED), "na", [x["property_id"] for x in na])
main()
