#!/bin/bash
# tools/seed_rerun_test.sh <seed-name> <test-path>: a test that hit the 900 s pytest timeout in the full-suite run of a seeded tree
# (machine under load) is run again alone on a scratch worktree with the change; the outcome is added to meta.json
name=$1; t=$2
d=/verif/seeded/$name; wt=/tmp/wtre_$$
git -C /repo worktree add -q --detach $wt HEAD || exit 3
( cd $wt && git apply $d/patch.diff ) || { git -C /repo worktree remove --force $wt; exit 3; }
cd $wt && NUMBA_CACHE_DIR=$wt/.nbcache PYTHONPATH=$wt /venv/bin/python -m pytest -q -p no:cacheprovider --timeout=900 $t > /tmp/rerun_$name.log 2>&1
res="$(tail -1 /tmp/rerun_$name.log)"
cd / && git -C /repo worktree remove --force $wt
echo "$name: $t alone: $res"
python3 - "$d" "$t" "$res" <<'PY'
import json, sys, os
d, t, res = sys.argv[1:4]
p = os.path.join(d, "meta.json"); m = json.load(open(p))
m.setdefault("confirmed", {}).setdefault("full_suite", {})["rerun_of_timed_out_test"] = dict(test=t, result=res.strip(), note="the test exceeded pytest's 900 s timeout in the full-suite run while the machine was heavily loaded; it is unrelated to the changed file")
json.dump(m, open(p, "w"), indent=1)
PY
