#!/bin/bash
# tools/seed_eval.sh <seed-name> <worktree> <prop> [tests-path]
# 1. confirm the demonstration in the scratch worktree (fails with the change, passes without)
# 2. run the given tests with the change
# 3. apply the patch to /repo, run ./check <prop> quick, undo
name=$1; wt=$2; prop=$3; tests=${4:-}
d=/verif/seeded/$name; mkdir -p $d
cp $wt/_seed/patch.diff $wt/_seed/demo.py $d/ 2>/dev/null
cp $wt/_seed/meta.json $d/agent_meta.json 2>/dev/null
export NUMBA_CACHE_DIR=$wt/.nbcache
cd $wt
git diff -- moptipyapps > /tmp/_cur.diff
if ! diff -q /tmp/_cur.diff $d/patch.diff >/dev/null; then echo "NOTE: worktree diff differs from patch.diff; using worktree diff"; cp /tmp/_cur.diff $d/patch.diff; fi
PYTHONPATH=$wt timeout 300 /venv/bin/python _seed/demo.py > /tmp/_demo_with.log 2>&1; with=$?
git stash -q
PYTHONPATH=$wt timeout 300 /venv/bin/python _seed/demo.py > /tmp/_demo_without.log 2>&1; without=$?
git stash pop -q
echo "demo with change: exit=$with ; without: exit=$without"
tail -2 /tmp/_demo_with.log
tres="not run"
if [ -n "$tests" ]; then
  timeout 3000 /venv/bin/python -m pytest -q -p no:cacheprovider --timeout=900 $tests > /tmp/_tests.log 2>&1; tres="exit=$? $(tail -1 /tmp/_tests.log)"
  echo "tests ($tests): $tres"
fi
cd /repo && git apply $d/patch.diff && cd /verif && ./check $prop quick > /tmp/_check.log 2>&1; crc=$?
cd /repo && git checkout -- . 
grep -E "^VIOLATION|^INCONCLUSIVE|^KNOWN" /tmp/_check.log | cut -c1-250 | head -5
echo "check $prop quick on seeded tree: exit=$crc"
python3 - "$d" "$name" "$prop" "$with" "$without" "$tres" "$crc" <<'PY'
import json, sys, os
d, name, prop, w, wo, tres, crc = sys.argv[1:8]
am = {}
try: am = json.load(open(os.path.join(d, "agent_meta.json")))
except Exception: pass
viol = [l.strip() for l in open("/tmp/_check.log") if l.startswith(("VIOLATION", "INCONCLUSIVE"))][:3]
meta = dict(name=name, property=prop, files_changed=am.get("files_changed"), what_it_breaks=am.get("what_it_breaks"),
            needs_to_manifest=am.get("needs_to_manifest"),
            confirmed=dict(demo_exit_with_change=int(w), demo_exit_without_change=int(wo), tests=tres,
                           how="tools/seed_eval.sh: demo.py run in the scratch worktree with the change and after git stash; listed tests run with the change"),
            check=dict(cmd=f"./check {prop} quick", exit=int(crc), lines=viol))
json.dump(meta, open(os.path.join(d, "meta.json"), "w"), indent=1)
PY
