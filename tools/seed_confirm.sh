#!/bin/bash
# tools/seed_confirm.sh <seed-name> <worktree> <prop> [tests]: confirm demo both ways + tests in the scratch worktree, keep the files
name=$1; wt=$2; prop=$3; tests=${4:-}
d=/verif/seeded/$name; mkdir -p $d
cp $wt/_seed/demo.py $d/ ; cp $wt/_seed/meta.json $d/agent_meta.json
export NUMBA_CACHE_DIR=$wt/.nbcache
cd $wt && git diff -- moptipyapps > $d/patch.diff
PYTHONPATH=$wt timeout 600 /venv/bin/python _seed/demo.py > /tmp/_demo_with.log 2>&1; with=$?
# (not `git stash`: the stash is shared by all worktrees of a repository)
git apply -R $d/patch.diff
PYTHONPATH=$wt timeout 600 /venv/bin/python _seed/demo.py > /tmp/_demo_without.log 2>&1; without=$?
git apply $d/patch.diff
echo "$name: demo with change: exit=$with ; without: exit=$without"
tres="not run"
if [ -n "$tests" ]; then
  timeout 3000 /venv/bin/python -m pytest -q -p no:cacheprovider --timeout=900 $tests > /tmp/_tests.log 2>&1; tres="exit=$? $(tail -1 /tmp/_tests.log)"
  echo "tests ($tests): $tres"
fi
python3 - "$d" "$name" "$prop" "$with" "$without" "$tres" "$tests" <<'PY'
import json, sys, os
d, name, prop, w, wo, tres, tests = sys.argv[1:8]
am = {}
try: am = json.load(open(os.path.join(d, "agent_meta.json")))
except Exception: pass
meta = dict(name=name, property=prop, files_changed=am.get("files_changed"), what_it_breaks=am.get("what_it_breaks"),
            needs_to_manifest=am.get("needs_to_manifest"), agent_tests=am.get("tests_run"),
            confirmed=dict(demo_exit_with_change=int(w), demo_exit_without_change=int(wo), tests_cmd=tests, tests=tres,
                           how="tools/seed_confirm.sh: demo.py run in the scratch worktree with the change and after git stash; listed tests run with the change"))
json.dump(meta, open(os.path.join(d, "meta.json"), "w"), indent=1)
PY
