#!/bin/bash
# tools/mut.sh <file-in-repo> <sed-expr> <prop> [tier] : apply a textual mutation, run the check, revert
f=$1; e=$2; p=$3; t=${4:-quick}
cd /repo && sed -i "$e" "$f" && git diff --stat | tail -1
cd /verif && ./check $p $t 2>&1 | grep -E "VIOLATION|INCONCLUSIVE|KNOWN|^$p|violated|clause:" | cut -c1-300 | head -12
echo "exit=${PIPESTATUS[0]}"
cd /repo && git checkout -- . 
