#!/bin/bash
# tools/mutwt.sh <file-in-repo> <sed-expr> <prop> [tier]: textual mutation in a scratch worktree (not in /repo), check run against it
# (VERIF_REPO), evidence diverted; the worktree is removed afterwards.  For development while other checks use /repo.
f=$1; e=$2; p=$3; t=${4:-quick}
wt=/tmp/mutwt_$$
git -C /repo worktree add -q --detach $wt HEAD || exit 3
cd $wt && sed -i "$e" "$f" && git diff --stat | tail -1
cd /verif && VERIF_REPO=$wt VERIF_EVIDENCE_DIR=/tmp/mutwt_ev_$$ ./check $p $t 2>&1 | grep -E "VIOLATION|INCONCLUSIVE|KNOWN|^$p|violated|clause:" | cut -c1-300 | head -12
echo "exit=${PIPESTATUS[0]}"
git -C /repo worktree remove --force $wt; rm -rf /tmp/mutwt_ev_$$
