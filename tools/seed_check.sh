#!/bin/bash
# tools/seed_check.sh <seed-name> <prop> [tier]: apply the kept patch to /repo, run the check, undo, record in meta.json
name=$1; prop=$2; tier=${3:-quick}
d=/verif/seeded/$name
cd /repo && git apply $d/patch.diff || { echo "patch does not apply"; exit 3; }
cd /verif && ./check $prop $tier > /tmp/_check_$name.log 2>&1; crc=$?
cd /repo && git checkout -- .
grep -E "^VIOLATION|^INCONCLUSIVE|^KNOWN" /tmp/_check_$name.log | cut -c1-250 | head -5
echo "check $prop $tier on seeded tree ($name): exit=$crc"
python3 - "$d" "$prop" "$tier" "$crc" "/tmp/_check_$name.log" <<'PY'
import json, sys, os
d, prop, tier, crc, log = sys.argv[1:6]
m = json.load(open(os.path.join(d, "meta.json")))
viol = [l.strip()[:300] for l in open(log) if l.startswith(("VIOLATION", "INCONCLUSIVE"))][:3]
m.setdefault("checks", [])
m["checks"] = [c for c in m["checks"] if not (c["cmd"] == f"./check {prop} {tier}")] + [dict(cmd=f"./check {prop} {tier}", exit=int(crc), lines=viol)]
m["check"] = m["checks"][-1]
json.dump(m, open(os.path.join(d, "meta.json"), "w"), indent=1)
PY
