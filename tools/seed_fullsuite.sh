#!/bin/bash
# tools/seed_fullsuite.sh <seed-name>: full pinned test suite on a scratch worktree with the seeded change applied
name=$1
d=/verif/seeded/$name
wt=/tmp/wtfull_$name
base=HEAD
[ "$name" = "c09-dtype-from-lower-bound" ] && base=c9e6ba5
git -C /repo worktree add -q --detach $wt $base || exit 3
cd $wt && git apply $d/patch.diff || { echo "patch failed"; git -C /repo worktree remove --force $wt; exit 3; }
export NUMBA_CACHE_DIR=$wt/.nbcache PYTHONPATH=$wt
nice -n 5 /venv/bin/python -m pytest -ra -q -p no:cacheprovider --timeout=900 --continue-on-collection-errors > /tmp/full_$name.log 2>&1
tail -1 /tmp/full_$name.log > /tmp/full_$name.summary
python3 - "$d" "$(cat /tmp/full_$name.summary)" "$(grep -c '^FAILED' /tmp/full_$name.log)" "$(grep '^FAILED' /tmp/full_$name.log | head -3 | tr '\n' ' ')" <<'PY'
import json, sys, os
d, summ, nfail, failed = sys.argv[1:5]
p = os.path.join(d, "meta.json")
m = json.load(open(p))
m.setdefault("confirmed", {})["full_suite"] = dict(cmd="pytest -ra -q -p no:cacheprovider --timeout=900 --continue-on-collection-errors (scratch worktree with the change)", summary=summ.strip(), failed=failed.strip(),
    note="tests/binpacking2d/test_make_instances.py::test_make_instances needs the network and fails on the unchanged tree as well (BASELINE.always_fail)")
json.dump(m, open(p, "w"), indent=1)
PY
cd / && git -C /repo worktree remove --force $wt
echo "$name: $(cat /tmp/full_$name.summary)"
