#!/bin/bash
# tools/seed_check_wt.sh <seed-name> <prop> [tier]: like seed_check.sh, but the patch is applied to a scratch worktree (not to /repo) and the
# check analyses that worktree (VERIF_REPO); evidence is diverted.  Used while other checks are running against /repo.
name=$1; prop=$2; tier=${3:-quick}
d=/verif/seeded/$name; wt=/tmp/seedwt_$$
base=HEAD; [ "$name" = "c09-dtype-from-lower-bound" ] && base=c9e6ba5
git -C /repo worktree add -q --detach $wt $base || exit 3
( cd $wt && git apply $d/patch.diff ) || { echo "patch does not apply"; git -C /repo worktree remove --force $wt; exit 3; }
cd /verif && VERIF_REPO=$wt VERIF_EVIDENCE_DIR=/tmp/seedwt_ev_$$ ./check $prop $tier > /tmp/_check_$name.log 2>&1; crc=$?
git -C /repo worktree remove --force $wt; rm -rf /tmp/seedwt_ev_$$
grep -E "^VIOLATION|^INCONCLUSIVE|^KNOWN" /tmp/_check_$name.log | cut -c1-200 | head -4
echo "check $prop $tier on seeded tree ($name): exit=$crc"
python3 - "$d" "$prop" "$tier" "$crc" "/tmp/_check_$name.log" <<'PY'
import json, sys, os
d, prop, tier, crc, log = sys.argv[1:6]
m = json.load(open(os.path.join(d, "meta.json")))
viol = [l.strip()[:300] for l in open(log) if l.startswith(("VIOLATION", "INCONCLUSIVE"))][:3]
m.setdefault("checks", [])
m["checks"] = [c for c in m["checks"] if not (c["cmd"] == f"./check {prop} {tier}")] + [dict(cmd=f"./check {prop} {tier}", exit=int(crc), lines=viol)]
m["check"] = m["checks"][-1]
json.dump(m, open(os.path.join(d, "meta.json"), "w"), indent=1)
PY
