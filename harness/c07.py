"""C07 - TTP error count is zero exactly for feasible schedules."""
from __future__ import annotations

import random
import time

import z3

from symx import backend, util
from symx.runner import Job, held, violated, inconclusive
from . import ttp_common as T

PROP = "C07"
ASSUMPTIONS = [
    "plan entries lie in -n..n (what GamePlanSpace.validate accepts)",
    "functional clauses are evaluated on plans on which every array access of count_errors is in range "
    "(an out-of-range access is reported under C13; the value computed after it is undefined)",
    "numba integer semantics: int64 scalars, floor // and %, negative index wrap; all terms proved to fit the chosen bit width",
]
STUBS = ["temp_1/temp_2 start as unconstrained symbolic garbage", "np.ndarray -> SymArray (flat cell list, views)"]


def py_documented_count(plan, n, rounds, S):
    days = len(plan)
    HM, HX, AM, AX, SM, SX = S
    tot = 0
    for t in range(n):
        col = [plan[d][t] for d in range(days)]
        tot += sum(1 for v in col if v == 0)
        runs = []
        for d, v in enumerate(col):
            kind = "h" if v > 0 else ("a" if v < 0 else "0")
            if runs and runs[-1][0] == kind:
                runs[-1][1] += 1
            else:
                runs.append([kind, 1])
        for k, (kind, ln) in enumerate(runs):
            if kind == "0":
                continue
            mn, mx = (HM, HX) if kind == "h" else (AM, AX)
            tot += max(0, ln - mx)
            if k < len(runs) - 1:
                tot += max(0, mn - ln)
    for t in range(n):
        for u in range(t):
            md = [d for d in range(days) if abs(plan[d][t]) == u + 1]
            for a, b in zip(md, md[1:]):
                gap = b - a - 1
                tot += max(0, SM - gap) + max(0, gap - SX)
            htu = sum(1 for d in range(days) if plan[d][t] == u + 1)
            hut = sum(1 for d in range(days) if plan[d][u] == t + 1)
            tot += abs(htu + hut - rounds) + max(0, abs(htu - hut) - 1)
    return tot


def py_consistent(plan, n):
    for row in plan:
        for t, v in enumerate(row):
            if v == 0:
                continue
            if abs(v) == t + 1 or abs(v) > n:
                return False
            if row[abs(v) - 1] != (-(t + 1) if v > 0 else (t + 1)):
                return False
    return True


def upper_bound_real(n, rounds):
    import moptipyapps.ttp.errors as er

    class I:
        pass
    i = I()
    i.n_cities, i.rounds = n, rounds
    e = er.Errors.__new__(er.Errors)
    e.instance = i
    return int(er.Errors.upper_bound(e))


def replay(w):
    """re-run the real compiled kernel on a witness; True if the violation reproduces"""
    plan, S, n, rounds, clause = w["plan"], w["settings"], w["n"], w["rounds"], w["clause"]
    val = T.real_count_errors(plan, S, n)
    feas = T.py_feasible(plan, n, rounds, S)
    info = dict(real_value=val, feasible=feas)
    if clause == "nonneg":
        bad = val < 0
    elif clause == "zero_implies_feasible":
        bad = val == 0 and not feas
    elif clause == "feasible_implies_zero":
        bad = feas and val != 0
    elif clause == "upper_bound":
        ub = upper_bound_real(n, rounds)
        info["upper_bound"] = ub
        bad = val > ub
    elif clause == "documented_count":
        exp = py_documented_count(plan, n, rounds, S)
        info["documented"] = exp
        bad = py_consistent(plan, n) and val != exp
    elif clause == "inconsistent_positive":
        bad = (not py_consistent(plan, n)) and val <= 0
    else:
        raise ValueError(clause)
    return bad, info


def selftest(n, rounds, count, seed):
    """translator validation: transformed source on concrete values vs compiled kernel"""
    from symx.core import Engine, SymArray
    from symx import core
    rnd = random.Random(seed)
    ce = T.sym_count_errors()
    days = (n - 1) * rounds
    bad = 0
    eng = Engine()
    core.ENG = eng
    ll = rounds * n - 1
    for _ in range(count):
        plan = [[rnd.choice([v for v in range(-n, n + 1) if abs(v) != t + 1]) for t in range(n)] for _ in range(days)]
        if rnd.random() < 0.4:   # near-feasible: make rows consistent
            for row in plan:
                ts = list(range(n))
                rnd.shuffle(ts)
                for a, b in zip(ts[::2], ts[1::2]):
                    row[a], row[b] = b + 1, -(a + 1)
        hmin = rnd.randint(1, ll); hmax = rnd.randint(hmin, ll); amin = rnd.randint(1, ll); amax = rnd.randint(amin, ll)
        smin = rnd.randint(0, ll); smax = rnd.randint(smin, ll)
        S = (hmin, hmax, amin, amax, smin, smax)
        y = SymArray([v for row in plan for v in row], (days, n), name="y")
        t1 = SymArray([rnd.randint(-5, 5) for _ in range(n * (n - 1) // 2)], (n * (n - 1) // 2,), name="t1")
        t2 = SymArray([rnd.randint(-5, 5) for _ in range(n * n)], (n, n), name="t2")
        eng.pending = []
        a = ce(y, *S, t1, t2)
        b = T.real_count_errors(plan, S, n)
        if a != b or a != (py_documented_count(plan, n, rounds, S) if py_consistent(plan, n) else a):
            bad += 1
    return bad


def job_clause(n, rounds, settings, clause, timeout_s=600, tag=""):
    t0 = time.time()
    box = T.encode_count_errors(n, rounds, settings)
    res, Y, S, days = box.res, box.Y, box.S, box.days
    cons = list(box.cons) + [box.inrange]
    if clause == "nonneg":
        goal = res < 0
    elif clause == "zero_implies_feasible":
        goal = z3.And(res == 0, z3.Not(T.feasible(Y, n, days, rounds, S)))
    elif clause == "feasible_implies_zero":
        goal = z3.And(T.feasible(Y, n, days, rounds, S), res != 0)
    elif clause == "upper_bound":
        goal = res > upper_bound_real(n, rounds)
    elif clause == "documented_count":
        goal = z3.And(T.consistent(Y, n, days), res != T.documented_count(Y, n, days, rounds, S))
    elif clause == "inconsistent_positive":
        goal = z3.And(z3.Not(T.consistent(Y, n, days)), res <= 0)
    else:
        raise ValueError(clause)
    r = backend.solve(cons, goal, timeout_s=timeout_s, label=f"{clause} n={n} rounds={rounds} {tag}")
    # vacuity twin: the domain (incl. in-range assumption) is satisfiable and reaches the final assertion
    tw = backend.solve(cons, res >= 0, timeout_s=60, label="twin")
    vac = dict(domain_satisfiable=tw.status)
    q, st = util.qstats([r, tw])
    common = dict(paths=box.paths, queries=q, solver_s=st, backend=repr(r), vacuity=vac,
                  summary=f"{clause} n={n} rounds={rounds} settings={settings or 'symbolic'}: {r.status} ({r.backend}, {r.seconds:.1f}s, width {r.width})",
                  sample=dict(query=f"exists plan in -n..n^{days}x{n}, in-range accesses, with NOT({clause})", n=n, rounds=rounds,
                              settings=settings or "symbolic (admissible ranges)", answer=r.status))
    if tw.status != "sat":
        return inconclusive(f"vacuity twin not sat: {tw.status}", **common)
    if r.status == "unsat":
        return held(**common)
    if r.status == "unknown":
        return inconclusive(f"solver unknown: {r.detail}", **common)
    plan = T.plan_from_model(r.model, n, days).tolist()
    Sv = T.settings_from_model(r.model, settings)
    w = dict(plan=plan, settings=list(Sv), n=n, rounds=rounds, clause=clause)
    bad, info = replay(w)
    w["observed"] = info
    if not bad:
        return inconclusive(f"model does not replay on the real kernel (encoding error): {w}", **common)
    site = "ttp/errors.py:Errors.upper_bound" if clause == "upper_bound" else "ttp/errors.py:count_errors"
    return violated(clause, site, f"{clause}: n={n} rounds={rounds} settings={list(Sv)} plan={plan} -> {info}", w,
                    validated=1, **common)


def day_rows(n, byes=True):
    """all day-wise consistent rows (a matching with orientations; optionally byes)"""
    rows = []

    def rec(row, free):
        if not free:
            rows.append(tuple(row))
            return
        a, rest = free[0], free[1:]
        if byes:
            rec(row, rest)
        for b in rest:
            r2 = [x for x in rest if x != b]
            for (h, w) in ((a, b), (b, a)):
                rr = list(row)
                rr[h], rr[w] = w + 1, -(h + 1)
                rec(rr, r2)
    rec([0] * n, list(range(n)))
    return rows


def job_documented_split(n, rounds, settings, case_ids, byes, timeout_s=300):
    """documented per-rule count on ALL day-wise consistent plans: each day is one of the consistent rows (selector
    variable per day); the first two days are enumerated (this job handles the pairs in case_ids), the rest is symbolic"""
    from symx.core import SymArray, fresh_array, lift, mk
    days = (n - 1) * rounds
    rows = day_rows(n, byes)
    ce = T.sym_count_errors()

    def h(eng):
        sels = [z3.Int(f"sel_{d}") for d in range(days)]
        cells = []
        for d in range(days):
            for t in range(n):
                e = z3.IntVal(rows[0][t])
                for k in range(1, len(rows)):
                    e = z3.If(sels[d] == k, z3.IntVal(rows[k][t]), e)
                cells.append(mk(e))
        y = SymArray(cells, (days, n), name="y")
        t1 = fresh_array("t1", (n * (n - 1) // 2,))
        t2 = fresh_array("t2", (n, n))
        res = ce(y, *settings, t1, t2)
        return util.Box(y=y, res=lift(res), sels=sels)
    eng, box = util.single_path(h)
    Y = [[lift(box.y[d, t]) for t in range(n)] for d in range(days)]
    spec = T.documented_count(Y, n, days, rounds, [z3.IntVal(v) for v in settings])
    goal = box.res != spec
    results = []
    for cid in case_ids:
        a, b = cid // len(rows), cid % len(rows)
        g = z3.simplify(z3.substitute(goal, (box.sels[0], z3.IntVal(a)), (box.sels[1], z3.IntVal(b))))
        cons = [z3.And(s_ >= 0, s_ < len(rows)) for s_ in box.sels[2:]]
        r = backend.solve(cons, g, timeout_s=timeout_s, label=f"documented split {a},{b}")
        results.append(r)
        if r.status != "unsat":
            q, st = util.qstats(results)
            common = dict(paths=1, queries=q, solver_s=st)
            if r.status == "unknown":
                return inconclusive(f"unknown at day rows {a},{b}: {r.detail}", **common)
            sel = [a, b] + [int(r.model.get(f"sel_{d}", 0)) for d in range(2, days)]
            plan = [list(rows[k]) for k in sel]
            w = dict(plan=plan, settings=list(settings), n=n, rounds=rounds, clause="documented_count")
            bad, info = replay(w)
            w["observed"] = info
            if bad:
                return violated("documented_count", "ttp/errors.py:count_errors", f"documented_count: plan={plan} settings={list(settings)} -> {info}", w, validated=1, **common)
            return inconclusive(f"model does not replay {w}", **common)
    q, st = util.qstats(results)
    return held(paths=1, queries=q, solver_s=st, summary=f"documented count n={n} rounds={rounds} settings={settings}: {len(case_ids)} first-two-day cases x all later days: unsat",
                sample=dict(query="value != documented per-rule count on a day-wise consistent plan", rows_per_day=len(rows), cases=len(case_ids), answer="unsat"))


def job_selftest(seed):
    bad = 0
    cnt = 0
    for (n, rounds, c) in ((2, 2, 60), (4, 1, 150), (4, 2, 150), (6, 1, 40)):
        bad += selftest(n, rounds, c, seed + n * 10 + rounds)
        cnt += c
    if bad:
        return inconclusive(f"self-test: {bad} of {cnt} concrete runs differ between the transformed source and the compiled kernel")
    return held(validated=cnt, summary=f"self-test {cnt} concrete plans: transformed source == compiled kernel == documented count",
                paths=cnt, queries={})


CLAUSES = ["nonneg", "zero_implies_feasible", "feasible_implies_zero", "upper_bound", "documented_count",
           "inconsistent_positive"]


def jobs(tier):
    import os
    seed = int(os.environ.get("VERIF_SEED", "0") or 0)
    js = [Job("selftest", job_selftest, dict(seed=seed), "selftest", 300)]
    shipped = T.shipped_settings(4)
    distinct = sorted({(r, s) for r, s in shipped.values()})
    for rounds, S in distinct:
        for cl in CLAUSES:
            if cl == "documented_count" and rounds >= 2:
                continue    # sum-vs-sum equality over 6 days is not decided directly (measured: unknown at 600 s); see below
            js.append(Job(f"{cl}/n4/r{rounds}/{'-'.join(map(str, S))}", job_clause,
                          dict(n=4, rounds=rounds, settings=S, clause=cl, timeout_s=300 if tier == "quick" else 900),
                          cl, 400 if tier == "quick" else 1000, weight=5))
    # single round robin with the same settings + the two-team league
    for S in sorted({s for _, s in distinct}):
        for cl in CLAUSES:
            js.append(Job(f"{cl}/n4/r1/{'-'.join(map(str, S))}", job_clause,
                          dict(n=4, rounds=1, settings=S, clause=cl, timeout_s=120), cl, 200))
            js.append(Job(f"{cl}/n2/r2/{'-'.join(map(str, S))}", job_clause,
                          dict(n=2, rounds=2, settings=S, clause=cl, timeout_s=120), cl, 200))
    # settings with different limits for home and away streaks / tight separation (the shipped instances all use 1,3,1,3,1,6)
    for S in ((2, 3, 1, 3, 1, 3), (1, 2, 3, 3, 0, 2), (3, 3, 1, 2, 2, 3)):
        for cl in CLAUSES:
            js.append(Job(f"{cl}/n4/r1/{'-'.join(map(str, S))}", job_clause, dict(n=4, rounds=1, settings=S, clause=cl, timeout_s=300), cl, 400))
    if tier == "thorough":
        # all admissible settings at once (symbolic): only these two clauses are decided for the three-day league (measured: the
        # other clauses and every six-day query end in solver timeouts / unknown and are not claimed)
        for cl in ("feasible_implies_zero", "inconsistent_positive"):
            js.append(Job(f"{cl}/n4/r1/symbolic-settings", job_clause, dict(n=4, rounds=1, settings=None, clause=cl, timeout_s=1500), cl, 1700, weight=10))
        # instead: the grid of settings of the three-day league - streak limits 1 <= min <= max <= 3 for home and away, five
        # separation windows - each clause over all plans
        done = {tuple(S) for _, S in distinct} | {(2, 3, 1, 3, 1, 3), (1, 2, 3, 3, 0, 2), (3, 3, 1, 2, 2, 3)}
        for hm in (1, 2, 3):
            for hx in range(hm, 4):
                for am in (1, 2, 3):
                    for ax in range(am, 4):
                        for sm, sx in ((0, 0), (0, 2), (1, 1), (1, 2), (2, 2)):
                            S = (hm, hx, am, ax, sm, sx)
                            if S in done:
                                continue
                            for cl in CLAUSES:
                                if cl == "documented_count":
                                    continue
                                js.append(Job(f"{cl}/n4/r1/{'-'.join(map(str, S))}", job_clause, dict(n=4, rounds=1, settings=S, clause=cl, timeout_s=600), cl, 700))
        # documented count for six days: all 12^6 day-wise consistent plans without byes (the property's quantifier), split over
        # the first two days; plus extreme concrete settings for the three-day league
        nrows = len(day_rows(4, False))
        for rounds, S in distinct:
            if rounds != 2:
                continue
            ids = list(range(nrows * nrows))
            per = 6
            for k in range(0, len(ids), per):
                js.append(Job(f"documented_count/n4/r2/{'-'.join(map(str, S))}/split{k // per}", job_documented_split,
                              dict(n=4, rounds=2, settings=S, case_ids=ids[k:k + per], byes=False), "documented_count", 2400, weight=3))
        for S in ((1, 1, 1, 1, 0, 0), (3, 3, 3, 3, 3, 3), (1, 7, 1, 7, 0, 7), (2, 2, 1, 3, 1, 1)):
            for cl in CLAUSES:
                js.append(Job(f"{cl}/n4/r1/{'-'.join(map(str, S))}", job_clause, dict(n=4, rounds=1, settings=S, clause=cl, timeout_s=600), cl, 700))
    return js


def meta(tier):
    return dict(
        bounds=dict(teams=[2, 4], rounds=[1, 2], plan_entries="-n..n (all values, self-play where in range)",
                    settings="quick: settings of the shipped four-team instances plus three asymmetric settings (home/away limits differ, tight separation) for the single round robin; thorough: additionally the grid of "
                             "all streak limits 1<=min<=max<=3 (home and away independently) x five separation windows for the three-day league (180 settings), two clauses for all admissible settings at once (symbolic), "
                             "and the documented count on all 12^6 day-wise consistent six-day plans without byes"),
        outside=["n >= 6", "rounds >= 3", "plans on which count_errors leaves its arrays (C13)"],
        assumptions=ASSUMPTIONS, stubs=STUBS)
