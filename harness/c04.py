"""C04 - packing validation accepts exactly the feasible packings."""
from __future__ import annotations

import random

import z3

from symx import core, xform, util, backend
from symx.core import Engine, SymArray, SymInt, fresh_array, fresh_int, lift, mk, Abort
from symx.runner import Job, held, violated, inconclusive
from . import pack_common as P

PROP = "C04"


def _validate():
    import moptipyapps.binpacking2d.packing_space as ps
    ov = core.install_builtins(dict(check_int_range=P.s_check_int_range))
    return xform.transform(ps.PackingSpace.validate, overrides=ov), ps


def real_validate(W, H, items, rows, nb):
    import numpy as np
    from moptipyapps.binpacking2d.instance import Instance
    from moptipyapps.binpacking2d.packing import Packing
    from moptipyapps.binpacking2d.packing_space import PackingSpace
    inst = Instance("i", W, H, [list(i) for i in items])
    y = Packing(inst)
    np.copyto(y, np.array(rows, dtype=np.int64), casting="unsafe")
    y.n_bins = nb
    stored = [[int(v) for v in r] for r in y]
    try:
        PackingSpace(inst).validate(y)
        return True, stored, ""
    except ValueError as e:
        return False, stored, str(e)[:200]


def replay(w):
    acc, stored, msg = real_validate(w["W"], w["H"], w["items"], w["rows"], w["n_bins"])
    feas, why = P.py_feasible(stored, [tuple(i) for i in w["items"]], w["W"], w["H"], w["n_bins"])
    return acc != feas, dict(validate_accepts=acc, feasible=feas, why=why, message=msg, stored_rows=stored)


def job_validate(reps, timeout_s=900, wmax=P.MAXDIM):
    validate, ps = _validate()
    from moptipyapps.binpacking2d.packing import Packing
    n = sum(reps)

    def h(eng):
        inst = P.make_instance(eng, reps)
        if wmax != P.MAXDIM:
            eng.assume(z3.And(inst.W.e <= wmax, inst.H.e <= wmax))
        x = fresh_array("x", (n, 6), dtype=inst.dtype, masq=Packing)
        eng.assume(core.in_dtype(x))
        x.instance = inst
        nb = fresh_int("nb")
        eng.assume(z3.And(nb.e >= 0, nb.e <= n + 1))
        x.n_bins = eng.concretise(nb.e)
        space = validate._shell.__new__(validate._shell)
        object.__setattr__(space, "instance", inst)
        X = P.rows_of(x, n)
        feas = P.feasible(X, inst, inst.W.e, inst.H.e, z3.IntVal(x.n_bins))
        try:
            validate(space, x)
            ok = True
        except ValueError:
            ok = False
        eng.flush()
        if ok:
            eng.oblige(feas, "accepted packing is feasible", now=True)
            return "accepted"
        eng.oblige(z3.Not(feas), "rejected packing is infeasible", now=True)
        return "rejected"
    eng = Engine(timeout_ms=60000, stop_on_violation=True)
    eng.prefer = P.small_witness_prefs(len(reps))
    ok = eng.explore(h)
    common = dict(paths=eng.paths, queries=dict(sat=eng.n_sat, unsat=eng.n_unsat, unknown=eng.unknown), solver_s=round(eng.t_solver, 2))
    if eng.violations:
        v = eng.violations[0]
        md = {d.name(): v.model[d].as_long() for d in v.model.decls() if z3.is_int_value(v.model[d])}
        W, H, items = P.model_instance(md, reps)
        rows = [[md.get(f"x_{i * 6 + k}", 0) for k in range(6)] for i in range(n)]
        nbv = md.get("nb", 0)
        w = dict(W=W, H=H, items=[list(i) for i in items], rows=rows, n_bins=nbv, label=v.label)
        try:
            bad, info = replay(w)
        except Exception as ex:
            return inconclusive(f"replay raised {type(ex).__name__}: {ex}; {w}", **common)
        w["observed"] = info
        if not bad:
            return inconclusive(f"model does not replay ({v.label}): {w}", **common)
        if info["validate_accepts"]:
            clause, site = "accepts_infeasible", "binpacking2d/packing_space.py:validate/" + _which_clause(info["why"])
        else:
            clause, site = "rejects_feasible", "binpacking2d/packing_space.py:validate/" + _which_reject(info["message"])
        return violated(clause, site, f"{clause}: bin {W}x{H} items {items} rows {rows} n_bins {nbv}: {info}", w, validated=1, **common)
    if not ok or not eng.outcomes.get("accepted") or not eng.outcomes.get("rejected"):
        return inconclusive(f"exploration not conclusive / vacuous: {eng.stats()}", **common)
    return held(summary=f"validate reps={reps}: {eng.paths} paths {eng.outcomes}", vacuity=dict(outcomes=eng.outcomes),
                sample=dict(reps=reps, outcomes=eng.outcomes, rows="arbitrary integers of the instance dtype", sizes="symbolic up to 10^12"), **common)


def _which_clause(why):
    if "size" in why:
        return "size-check"
    if "overlap" in why:
        return "overlap-check"
    if "outside" in why:
        return "bounds-check"
    if "multiplic" in why:
        return "count-check"
    if "bins" in why:
        return "bin-id-check"
    return "other"


def _which_reject(msg):
    if "bin_width" in msg or "bin_height" in msg:
        return "bin-size-cap"
    return "other"


def job_config():
    """type / shape / dtype / instance-identity clauses: four concrete configurations on the real code"""
    import numpy as np
    from moptipyapps.binpacking2d.instance import Instance
    from moptipyapps.binpacking2d.packing import Packing
    from moptipyapps.binpacking2d.packing_space import PackingSpace
    i1 = Instance("a", 10, 10, [[3, 4, 2]])
    i2 = Instance("b", 10, 10, [[3, 4, 2]])
    sp = PackingSpace(i1)
    good = Packing(i1)
    good[:] = [[1, 1, 0, 0, 3, 4], [1, 1, 3, 0, 6, 4]]
    good.n_bins = 1
    res = {}
    sp.validate(good)
    res["good"] = "accepted"
    other = Packing(i2)
    other[:] = good
    other.n_bins = 1
    cases = dict(not_a_packing=np.array(good), other_instance=other)
    wrongdt = good.astype(np.int64).view(Packing)
    wrongdt.instance, wrongdt.n_bins = i1, 1
    cases["wrong_dtype"] = wrongdt
    fl = Packing(i1)
    fl[:] = good
    fl.n_bins = 1.0
    cases["n_bins_float"] = fl
    bad = []
    for k, v in cases.items():
        try:
            sp.validate(v)
            res[k] = "accepted"
            bad.append(k)
        except (TypeError, ValueError) as e:
            res[k] = type(e).__name__
    if bad:
        w = dict(config=bad)
        return violated("config_clauses", "binpacking2d/packing_space.py:validate/type-shape-dtype", f"validate accepts {bad}", w, validated=len(cases))
    return held(validated=len(cases) + 1, paths=len(cases) + 1, queries={}, summary=f"type/shape/dtype clauses: {res}", sample=res)


def jobs(tier):
    js = [Job("config", job_config, {}, "config_clauses", 120)]
    nmax = 2 if tier == "quick" else 3
    for n in range(1, nmax + 1):
        for reps in P.compositions(n):
            js.append(Job(f"validate/reps{'-'.join(map(str, reps))}", job_validate, dict(reps=reps), "validate_iff_feasible",
                          900 if n < 3 else 3500, weight=n))
    return js


def meta(tier):
    return dict(
        bounds=dict(rows=f"<= {2 if tier == 'quick' else 3} rows, every multiplicity vector", matrix="every integer matrix of the packing shape within the instance dtype",
                    sizes="bin/item sizes symbolic up to 10^12", n_bins="0..rows+1"),
        outside=["more rows", "from_str/to_str round trip (C19)"],
        assumptions=["instances: accepted by the real constructor (see C01 constructor-domain job)",
                     "x is a Packing of the space's instance with the instance dtype and the right shape (the four other configurations are checked concretely)"],
        stubs=["np.ndarray -> SymArray masquerading as Packing/Instance", "check_int_range re-implemented from its documentation",
               "set/Counter keys concretise symbolic ids by forking over feasible values"])
