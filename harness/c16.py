"""C16 - controller blueprints and system equations compute their formulas.

Real-arithmetic equivalence (z3 Real; arctan/exp uninterpreted, the same symbol on both sides).  Excludes IEEE
rounding: the compiled kernels use fastmath=True, so their floating-point result is association dependent
anyway; what is decided here is the algebra."""
from __future__ import annotations

import itertools
import math
import random
import time

import z3

from symx import core, xform, util, backend
from symx.core import Engine, SymArray, SymReal, fresh_array, lift, mk, Abort, NPShim
from symx.runner import Job, held, violated, inconclusive

PROP = "C16"


class Sys:
    """stand-in for dynamic_control.system.System: the factories only read the two dimensions"""

    def __init__(self, sd, cd):
        self.state_dims, self.control_dims, self.name = sd, cd, f"sys{sd}_{cd}"

    def __repr__(self):
        return self.name


def rvec(name, n, readonly=True):
    a = fresh_array(name, (n,), real=True)
    a.readonly = readonly
    return a


def run_kernel(fn, sd, cd, pd):
    """one run of a transformed controller/system kernel on symbolic reals; returns state, params, out arrays"""
    st, pa = rvec("s", sd), rvec("p", pd)
    out = fresh_array("o", (cd,), real=True)
    fn(st, core.fresh_real("t"), pa, out)
    return st, pa, out


def monomials(sd, degree):
    ms = []
    for d in range(1, degree + 1):
        for combo in itertools.combinations_with_replacement(range(sd), d):
            ms.append(combo)
    return ms


def mono_term(s, combo):
    r = z3.RealVal(1)
    for i in combo:
        r = r * s[i]
    return r


def is_zero(e):
    e = z3.simplify(e, som=True)
    if z3.is_rational_value(e):
        return e.as_fraction() == 0
    s = z3.Solver()
    s.set("timeout", 20000)
    s.add(e != 0)
    return s.check() == z3.unsat


def real_call(ctrl, state, params):
    import numpy as np
    out = np.full(ctrl.control_dims, 123.0)
    st = np.array(state, dtype=float)
    pa = np.array(params, dtype=float)
    st0, pa0 = st.copy(), pa.copy()
    ctrl.controller(st, 0.5, pa, out)
    return [float(v) for v in out], bool((st == st0).all() and (pa == pa0).all())


# ------------------------------------------------------------------ polynomial controllers
def get_controller(kind, sd, idx=0):
    import moptipyapps.dynamic_control.controllers.linear as cl
    import moptipyapps.dynamic_control.controllers.quadratic as cq
    import moptipyapps.dynamic_control.controllers.cubic as cc
    import moptipyapps.dynamic_control.controllers.partially_linear as cp
    import moptipyapps.dynamic_control.controllers.peaks as ck
    system = Sys(sd, 1)
    if kind == "linear":
        return cl.linear(system)
    if kind == "quadratic":
        return cq.quadratic(system)
    if kind == "cubic":
        return cc.cubic(system)
    if kind == "partially_linear":
        return list(cp.partially_linear(system))[idx]
    if kind == "peaks":
        return list(ck.peaks(system))[idx]
    raise ValueError(kind)


def replay(w):
    kind = w["kind"]
    if kind in ("linear", "quadratic", "cubic"):
        ctrl = get_controller(kind, w["sd"])
        state = w["state"]
        deg = {"linear": 1, "quadratic": 2, "cubic": 3}[kind]
        ms = monomials(w["sd"], deg)
        info = dict(param_dims=ctrl.param_dims, monomials=len(ms))
        if ctrl.param_dims != len(ms):
            info["note"] = "declared parameter count differs from the number of monomials"
        # coefficient of every parameter at the witness state
        coeff = []
        for k in range(ctrl.param_dims):
            e = [0.0] * ctrl.param_dims
            e[k] = 1.0
            o, unchanged = real_call(ctrl, state, e)
            coeff.append(o[0])
        vals = [math.prod(state[i] for i in c) for c in ms]
        info.update(coefficients=coeff, monomial_values=vals)
        # a complete polynomial: the multiset of parameter coefficients equals the multiset of monomial values
        bad = sorted(round(c, 9) for c in coeff) != sorted(round(v, 9) for v in vals)
        return bad, info
    if kind == "partially_linear":
        ctrl = get_controller(kind, w["sd"], w["idx"])
        sd = w["sd"]
        state, params = w["state"], w["params"]
        o, unchanged = real_call(ctrl, state, params)
        k = ctrl.param_dims // (2 * sd)
        ds, laws = [], []
        for a in range(k):
            anc = params[a * 2 * sd: a * 2 * sd + sd]
            law = params[a * 2 * sd + sd: (a + 1) * 2 * sd]
            ds.append(sum((s - c) ** 2 for s, c in zip(state, anc)))
            laws.append(sum(s * c for s, c in zip(state, law)))
        best = min(ds)
        ok = any(abs(ds[a] - best) <= 1e-12 * max(1, abs(best)) and abs(o[0] - laws[a]) <= 1e-9 * max(1, abs(laws[a])) for a in range(k))
        return (not ok) or (not unchanged), dict(output=o[0], distances=ds, laws=laws, inputs_unchanged=unchanged)
    if kind in ("peaks", "ann"):
        if kind == "peaks":
            ctrl = get_controller(kind, w["sd"], w["idx"])
        else:
            from moptipyapps.dynamic_control.controllers.ann import make_ann
            ctrl = make_ann(w["sd"], w["cd"], list(w["layers"]))
        if kind == "ann":
            # documented layout: every hidden neuron has a bias and one weight per input of its layer; every output has a multiplier,
            # a bias and one weight per value of the last layer
            prev, cnt = ctrl.state_dims, 0
            for width in list(w["layers"]):
                cnt += width * (prev + 1)
                prev = width
            cnt += ctrl.control_dims * (prev + 2)
            if cnt != ctrl.param_dims:
                return True, dict(param_dims=ctrl.param_dims, expected_param_dims=cnt)
        rnd = random.Random(7)
        worst = 0.0
        unchanged_all = True
        for _ in range(20):
            state = [rnd.uniform(-2, 2) for _ in range(ctrl.state_dims)]
            params = [rnd.uniform(-2, 2) for _ in range(ctrl.param_dims)]
            o, unchanged = real_call(ctrl, state, params)
            unchanged_all = unchanged_all and unchanged
            exp = ref_network_float(kind, ctrl.state_dims, ctrl.control_dims, w.get("layers", None) if kind == "ann" else [w["idx"] + 1], state, params)
            if len(exp[1]) != 0 and exp[1][0] != ctrl.param_dims:
                return True, dict(param_dims=ctrl.param_dims, expected_param_dims=exp[1][0])
            worst = max(worst, max(abs(a - b) for a, b in zip(o, exp[0])))
        return worst > 1e-9 or not unchanged_all, dict(max_deviation=worst, inputs_unchanged=unchanged_all)
    if kind == "system":
        import numpy as np
        eq = get_system(w["name"])
        rnd = random.Random(5)
        worst = 0.0
        for _ in range(20):
            sd = w["sd"]
            st = [rnd.uniform(-3, 3) for _ in range(sd)]
            c = [rnd.uniform(-3, 3)]
            out = np.zeros(sd)
            eq(np.array(st), 0.1, np.array(c), out)
            exp = spec_system_float(w["name"], st, c)
            worst = max(worst, max(abs(a - b) for a, b in zip(out, exp)))
        return worst > 1e-9, dict(max_deviation=worst)
    raise ValueError(kind)


def job_polynomial(kind, sd):
    deg = {"linear": 1, "quadratic": 2, "cubic": 3}[kind]
    ctrl = get_controller(kind, sd)
    fn = xform.transform(ctrl.controller)
    ms = monomials(sd, deg)
    res = {}

    def h(eng):
        st, pa, out = run_kernel(fn, sd, 1, ctrl.param_dims)
        res["out"] = lift(out[0])
        res["s"] = [lift(st[i]) for i in range(sd)]
        res["p"] = [lift(pa[i]) for i in range(ctrl.param_dims)]
        return "ran"
    eng = Engine()
    eng.explore(h)
    common = dict(paths=eng.paths, queries=dict(sat=eng.n_sat, unsat=eng.n_unsat, unknown=eng.unknown), solver_s=round(eng.t_solver, 2))
    if eng.violations or "out" not in res:
        v = eng.violations[0].label if eng.violations else eng.stats()
        w = dict(kind=kind, sd=sd, state=[1.0] * sd, label=str(v))
        if eng.violations:
            return violated("writes_input_or_out_of_range", f"dynamic_control/controllers/{kind}.py", f"{kind} {sd}d: {v}", w, **common)
        return inconclusive(f"kernel did not run: {v}", **common)
    out, s, p = res["out"], res["s"], res["p"]
    nq = 0
    # coefficient of each parameter (the output is linear in the parameters)
    coeff = []
    for k in range(len(p)):
        sub = [(p[j], z3.RealVal(1 if j == k else 0)) for j in range(len(p))]
        coeff.append(z3.simplify(z3.substitute(out, *sub), som=True))
    lin = is_zero(out - z3.Sum([p[k] * coeff[k] for k in range(len(p))]))
    nq += 1
    assign = {}
    for k, c in enumerate(coeff):
        for mi, m in enumerate(ms):
            nq += 1
            if is_zero(c - mono_term(s, m)):
                assign[k] = mi
                break
    used = sorted(assign.values())
    problems = []
    if not lin:
        problems.append("output is not linear in the parameters")
    if len(p) != len(ms):
        problems.append(f"declared param_dims={len(p)} but the complete polynomial of degree {deg} in {sd} variables has {len(ms)} monomials")
    missing = [ms[i] for i in range(len(ms)) if i not in used]
    if missing:
        problems.append("monomials without a parameter: " + ", ".join("*".join(f"s{i}" for i in m) for m in missing))
    unused = [k for k in range(len(p)) if k not in assign]
    if unused:
        problems.append(f"parameters that multiply no monomial: {unused}")
    if len(set(used)) != len(used):
        problems.append("two parameters multiply the same monomial")
    common["queries"] = dict(sat=0, unsat=nq, unknown=0)
    common["sample"] = dict(kind=kind, state_dims=sd, monomials=len(ms), assignment={str(k): "*".join(f"s{i}" for i in ms[v]) for k, v in assign.items()})
    if problems:
        state = [2.0, 3.0, 5.0][:sd]
        w = dict(kind=kind, sd=sd, state=state, problems=problems)
        bad, info = replay(w)
        w["observed"] = info
        if bad:
            return violated("complete_polynomial", f"dynamic_control/controllers/{kind}.py:{sd}d", f"{kind} controller for {sd}-d states: " + "; ".join(problems), w, validated=1, **common)
        return inconclusive(f"symbolic finding does not replay: {problems} {info}", **common)
    return held(summary=f"{kind} {sd}d: output = sum of one parameter per monomial, {len(ms)} monomials of degree <= {deg}, bijection", **common)


def abstract_nl(terms):
    """replace every nonlinear product / power by an uninterpreted application (hash-consed on the simplified term):
    the kernel's decisions and the specification then live in linear real arithmetic + UF.  Returns abstracted terms
    and axioms (squares are non-negative)."""
    cache = {}
    axioms = []
    MUL = z3.Function("mul", z3.RealSort(), z3.RealSort(), z3.RealSort())
    SQ = z3.Function("sq", z3.RealSort(), z3.RealSort())

    def rec(t):
        k = t.get_id()
        if k in cache:
            return cache[k]
        kind = t.decl().kind()
        ch = [rec(c) for c in t.children()]
        if kind == z3.Z3_OP_MUL:
            consts = [c for c in ch if z3.is_rational_value(c)]
            rest = [c for c in ch if not z3.is_rational_value(c)]
            if len(rest) <= 1:
                r = ch[0]
                for c in ch[1:]:
                    r = r * c
            else:
                rest.sort(key=lambda e: e.get_id())
                acc = rest[0]
                for c in rest[1:]:
                    if acc.eq(c):
                        acc2 = SQ(acc)
                        axioms.append(acc2 >= 0)
                        acc = acc2
                    else:
                        acc = MUL(acc, c)
                r = acc
                for c in consts:
                    r = c * r
        elif kind == z3.Z3_OP_POWER:
            if z3.is_rational_value(ch[1]) and ch[1].as_fraction() == 2:
                r = SQ(ch[0])
                axioms.append(r >= 0)
            else:
                r = z3.Function("pw", z3.RealSort(), z3.RealSort(), z3.RealSort())(ch[0], ch[1])
        elif not ch:
            r = t
        else:
            r = t.decl()(*ch)
        cache[k] = r
        return r
    return [rec(z3.simplify(t)) for t in terms], axioms


def job_partially_linear(sd, idx):
    ctrl = get_controller("partially_linear", sd, idx)
    fn = xform.transform(ctrl.controller)
    k = ctrl.param_dims // (2 * sd)
    res = {}

    def h(eng):
        st, pa, out = run_kernel(fn, sd, 1, ctrl.param_dims)
        res.update(s=[lift(st[i]) for i in range(sd)], p=[lift(pa[i]) for i in range(ctrl.param_dims)], o=lift(out[0]))
        return "ran"
    eng = Engine(timeout_ms=120000)
    ok = eng.explore(h)
    common = dict(paths=eng.paths, queries=dict(sat=0, unsat=0, unknown=0), solver_s=0.0, sample=dict(kind="partially_linear", state_dims=sd, anchors=k))
    if eng.violations or "o" not in res:
        w = dict(kind="partially_linear", sd=sd, idx=idx, state=[1.0] * sd, params=[0.5] * ctrl.param_dims, label=str([v.label for v in eng.violations]))
        bad, info = replay(w)
        if bad:
            w["observed"] = info
            return violated("writes_input_or_out_of_range", f"dynamic_control/controllers/partially_linear.py:{ctrl.name}", f"{ctrl.name}: {w['label']} {info}", w, validated=1, **common)
        return inconclusive(f"kernel did not run cleanly: {eng.stats()} {w['label']}", **common)
    s, p, o = res["s"], res["p"], res["o"]
    ds, laws = [], []
    for a in range(k):
        anc = p[a * 2 * sd: a * 2 * sd + sd]
        law = p[a * 2 * sd + sd: (a + 1) * 2 * sd]
        ds.append(z3.Sum([(x - c) * (x - c) for x, c in zip(s, anc)]))
        laws.append(z3.Sum([x * c for x, c in zip(s, law)]))
    abst, axioms = abstract_nl([o] + ds + laws)
    oa, dsa, lawsa = abst[0], abst[1:1 + k], abst[1 + k:]
    spec = z3.Or(*[z3.And(oa == lawsa[a], *[dsa[a] <= dsa[b] for b in range(k)]) for a in range(k)])
    sv = z3.Solver()
    sv.set("timeout", 120000)
    sv.add(*axioms)
    sv.add(*[d >= 0 for d in dsa])
    sv.add(z3.Not(spec))
    t0 = time.time()
    r = sv.check()
    common["solver_s"] = round(time.time() - t0, 2)
    common["queries"] = dict(sat=int(r == z3.sat), unsat=int(r == z3.unsat), unknown=int(r == z3.unknown))
    if r == z3.unsat:
        return held(summary=f"{ctrl.name} {sd}d: {k} anchors: output is the law of a nearest anchor (products abstracted to UF, LRA)", **common)
    if r == z3.unknown:
        return inconclusive("solver unknown", **common)
    m = sv.model()

    def val(e):
        v = m.eval(e, model_completion=True)
        return float(v.as_fraction()) if z3.is_rational_value(v) else float(v.approx(15).as_fraction())
    D = [max(0.0, val(d)) for d in dsa]
    L = [val(l) for l in lawsa]
    # realise the abstract model: state e_axis, anchor_j = e_axis * (1 + sqrt(D_j)), law_j = e_axis * L_j, for each axis;
    # if none of these collinear realisations reproduces (the difference may sit in another coordinate), fall back to a
    # seeded search over a small integer grid of states/parameters (witness construction only: the solver has already
    # shown that code and specification differ as terms)
    cands = []
    for axis in range(sd):
        state = [0.0] * sd
        state[axis] = 1.0
        params = []
        for a in range(k):
            anc = [0.0] * sd
            anc[axis] = 1.0 + math.sqrt(D[a])
            law = [0.0] * sd
            law[axis] = L[a]
            params += anc + law
        cands.append((state, params))
    rnd = random.Random(12345)
    for _ in range(3000):
        cands.append(([float(rnd.randint(-4, 4)) for _ in range(sd)], [float(rnd.randint(-5, 5)) for _ in range(ctrl.param_dims)]))
    for state, params in cands:
        w = dict(kind="partially_linear", sd=sd, idx=idx, state=state, params=params, abstract_distances=D, abstract_laws=L)
        bad, info = replay(w)
        if bad:
            w["observed"] = info
            return violated("nearest_anchor_law", f"dynamic_control/controllers/partially_linear.py:{ctrl.name}",
                            f"{ctrl.name} ({sd}d, {k} anchors): state {state} params {params} -> {info}", w, validated=1, **common)
    w = dict(kind="partially_linear", sd=sd, idx=idx, abstract_distances=D, abstract_laws=L)
    return inconclusive(f"abstract counterexample does not replay: {w}", **common)


# ------------------------------------------------------------------ networks
def ref_network(kind, sd, cd, layers, s, p):
    """layer-by-layer evaluation with the documented parameter layout (z3 reals; returns outputs and #params)"""
    f = z3.Function("arctan" if kind == "ann" else "exp", z3.RealSort(), z3.RealSort())
    k = 0
    if kind == "peaks":
        tot = z3.RealVal(0)
        for _ in range(layers[0]):
            m = p[k]
            a = p[k + 1] + z3.Sum([p[k + 2 + i] * s[i] for i in range(sd)])
            k += 2 + sd
            tot = tot + m * f(-(a * a))
        return [tot], k
    cur = list(s)
    for width in layers:
        nxt = []
        for _ in range(width):
            a = p[k]
            k += 1
            for v in cur:
                a = a + p[k] * v
                k += 1
            nxt.append(f(a))
        cur = nxt
    outs = []
    for _ in range(cd):
        m = p[k]
        a = p[k + 1]
        k += 2
        for v in cur:
            a = a + p[k] * v
            k += 1
        outs.append(m * f(a))
    return outs, k


def ann_param_count(sd, cd, layers):
    k, prev = 0, sd
    for w in layers:
        k += w * (1 + prev)
        prev = w
    return k + cd * (2 + prev)


def ref_network_float(kind, sd, cd, layers, s, p):
    k = 0
    if kind == "peaks":
        tot = 0.0
        for _ in range(layers[0]):
            a = p[k + 1] + sum(p[k + 2 + i] * s[i] for i in range(sd))
            tot += p[k] * math.exp(-(a * a))
            k += 2 + sd
        return [tot], [k]
    cur = list(s)
    for width in layers:
        nxt = []
        for _ in range(width):
            a = p[k]
            k += 1
            for v in cur:
                a += p[k] * v
                k += 1
            nxt.append(math.atan(a))
        cur = nxt
    outs = []
    for _ in range(cd):
        m, a = p[k], p[k + 1]
        k += 2
        for v in cur:
            a += p[k] * v
            k += 1
        outs.append(m * math.atan(a))
    return outs, [k]


def capture_ann(sd, cd, layers):
    """the text generated by the real make_ann, captured from the real CodeGenerator before compilation"""
    import moptipyapps.dynamic_control.controllers.codegen as cg
    import moptipyapps.dynamic_control.controllers.ann as ann
    texts = []
    orig = cg.CodeGenerator.build

    def build(self):
        self.endline()
        texts.append(self._CodeGenerator__res())
        return orig(self)
    cg.CodeGenerator.build = build
    try:
        for a in list(vars(ann.make_ann)):
            if a.startswith("__cache_"):
                delattr(ann.make_ann, a)
        ctrl = ann.make_ann(sd, cd, list(layers))
    finally:
        cg.CodeGenerator.build = orig
    return ctrl, texts[-1]


class _FakeNumba:
    @staticmethod
    def njit(*a, **k):
        return lambda f: f


def job_ann(archs):
    """translation validation of the generated network code, one query per architecture"""
    import hashlib
    nq = 0
    t_solver = 0.0
    samples = []
    for (sd, cd, layers) in archs:
        ctrl, text = capture_ann(sd, cd, layers)
        xform.SOURCES[f"generated ann {sd}-{list(layers)}-{cd}"] = hashlib.sha256(text.encode()).hexdigest()[:16]
        g = {"numba": _FakeNumba, "np": NPShim(), "Final": None}
        loc = {}
        exec(compile(text, "<generated-ann>", "exec"), g, loc)
        fn = loc["____func"]
        eng = Engine()
        core.ENG = eng
        eng.pending = []
        st, pa = rvec("s", sd), rvec("p", ctrl.param_dims)
        out = fresh_array("o", (cd,), real=True)
        try:
            fn(st, core.fresh_real("t"), pa, out)
        except Abort:
            pass
        bad_ob = [l for l, c in eng.pending]
        s = [lift(st[i]) for i in range(sd)]
        p = [lift(pa[i]) for i in range(ctrl.param_dims)]
        exp, npar = ref_network("ann", sd, cd, layers, s, p + [z3.RealVal(0)] * 4096)
        problems = []
        if npar != ctrl.param_dims or ann_param_count(sd, cd, layers) != ctrl.param_dims:
            problems.append(f"param_dims={ctrl.param_dims} but the architecture needs {ann_param_count(sd, cd, layers)}")
        if bad_ob or eng.violations:
            problems.append(f"generated code leaves its arrays or writes its inputs: {bad_ob[:2]}")
        t0 = time.time()
        for i in range(cd):
            o = out.cells[i]
            nq += 1
            if not isinstance(o, SymReal):
                problems.append(f"output {i} not written")
                continue
            sv = z3.Solver()
            sv.set("timeout", 60000)
            sv.add(o.e != exp[i])
            r = sv.check()
            if r != z3.unsat:
                problems.append(f"output {i} differs from the layer-by-layer network ({r})")
        t_solver += time.time() - t0
        if len(samples) < 2:
            samples.append(dict(arch=[sd, list(layers), cd], params=ctrl.param_dims, generated_lines=text.count("\n")))
        if problems:
            w = dict(kind="ann", sd=sd, cd=cd, layers=list(layers), problems=problems)
            bad, info = replay(w)
            w["observed"] = info
            common = dict(paths=len(archs), queries=dict(sat=1, unsat=nq - 1, unknown=0), solver_s=round(t_solver, 2))
            if bad:
                return violated("ann_equals_network", "dynamic_control/controllers/ann.py:make_ann", f"generated ANN {sd}-{list(layers)}-{cd}: " + "; ".join(problems) + f" -> {info}", w, validated=1, **common)
            return inconclusive(f"symbolic difference does not replay on floats: {w}", **common)
    return held(paths=len(archs), queries=dict(sat=0, unsat=nq, unknown=0), solver_s=round(t_solver, 2), sample=samples,
                summary=f"{len(archs)} generated ANN architectures equal the layer-by-layer network (reals, arctan uninterpreted)")


def job_peaks(sd):
    import moptipyapps.dynamic_control.controllers.peaks as ck
    ctrls = list(ck.peaks(Sys(sd, 1)))
    nq = 0
    for idx, ctrl in enumerate(ctrls):
        fn = xform.transform(ctrl.controller)
        res = {}

        def h(eng):
            st, pa, out = run_kernel(fn, sd, 1, ctrl.param_dims)
            res.update(s=[lift(st[i]) for i in range(sd)], p=[lift(pa[i]) for i in range(ctrl.param_dims)], o=lift(out[0]))
            return "ran"
        eng = Engine()
        eng.explore(h)
        problems = []
        if eng.violations or "o" not in res:
            problems.append("kernel writes its inputs / leaves its arrays: " + str([v.label for v in eng.violations]))
        else:
            exp, npar = ref_network("peaks", sd, 1, [idx + 1], res["s"], res["p"] + [z3.RealVal(0)] * 64)
            if npar != ctrl.param_dims:
                problems.append(f"param_dims={ctrl.param_dims}, expected {npar}")
            sv = z3.Solver()
            sv.set("timeout", 60000)
            sv.add(res["o"] != exp[0])
            nq += 1
            if sv.check() != z3.unsat:
                problems.append("output differs from the sum of weighted peaks")
        if problems:
            w = dict(kind="peaks", sd=sd, idx=idx, problems=problems)
            bad, info = replay(w)
            w["observed"] = info
            common = dict(paths=idx + 1, queries=dict(sat=1, unsat=nq - 1, unknown=0))
            if bad:
                return violated("peaks_equal_network", f"dynamic_control/controllers/peaks.py:{ctrl.name}", f"{ctrl.name} {sd}d: " + "; ".join(problems) + f" {info}", w, validated=1, **common)
            return inconclusive(f"does not replay: {w}", **common)
    return held(paths=len(ctrls), queries=dict(sat=0, unsat=nq, unknown=0), summary=f"peaks {sd}d: {len(ctrls)} controllers equal the sum of weighted exp(-a^2) peaks",
                sample=dict(kind="peaks", state_dims=sd, controllers=[c.name for c in ctrls]))


# ------------------------------------------------------------------ systems
def get_system(name):
    import moptipyapps.dynamic_control.systems.stuart_landau as sl
    import moptipyapps.dynamic_control.systems.lorenz as lo
    import moptipyapps.dynamic_control.systems.three_coupled_oscillators as tc
    return dict(stuart_landau=getattr(sl, "__stuart_landau_equations"), lorenz=getattr(lo, "__lorenz_equations"),
                three_coupled_oscillators=getattr(tc, "__3_coupled_oscillators"))[name]


def spec_system(name, s, c):
    if name == "stuart_landau":
        sigma = z3.RealVal("1/10") - s[0] * s[0] - s[1] * s[1]
        return [sigma * s[0] - s[1], sigma * s[1] + s[0] + c[0]]
    if name == "lorenz":
        return [10 * (s[1] - s[0]), 28 * s[0] - s[1] - s[0] * s[2] + c[0], s[0] * s[1] - z3.RealVal("8/3") * s[2]]
    if name == "three_coupled_oscillators":
        # equation (3.1) of Li et al. 2018 (cited in the module): three oscillators with angular frequencies 1, pi, pi^2; each is a
        # rotation with its frequency plus growth rate sigma_k; the actuation b enters the second and third oscillator
        import math
        r1, r2, r3 = s[0] * s[0] + s[1] * s[1], s[2] * s[2] + s[3] * s[3], s[4] * s[4] + s[5] * s[5]
        sig = [-r1 + r2 - r3, lift(0.1) - r2, lift(-0.1)]
        om = [z3.RealVal(1), lift(math.pi), lift(math.pi * math.pi)]
        out = []
        for k in range(3):
            a, b_ = s[2 * k], s[2 * k + 1]
            out.append(sig[k] * a - om[k] * b_)
            out.append(sig[k] * b_ + om[k] * a + (c[0] if k > 0 else 0))
        return out
    raise ValueError(name)


def spec_system_float(name, s, c):
    if name == "stuart_landau":
        sigma = 0.1 - s[0] ** 2 - s[1] ** 2
        return [sigma * s[0] - s[1], sigma * s[1] + s[0] + c[0]]
    if name == "lorenz":
        return [10 * (s[1] - s[0]), 28 * s[0] - s[1] - s[0] * s[2] + c[0], s[0] * s[1] - (8.0 / 3.0) * s[2]]
    if name == "three_coupled_oscillators":
        import math
        r1, r2, r3 = s[0] ** 2 + s[1] ** 2, s[2] ** 2 + s[3] ** 2, s[4] ** 2 + s[5] ** 2
        sig = [-r1 + r2 - r3, 0.1 - r2, -0.1]
        om = [1.0, math.pi, math.pi * math.pi]
        out = []
        for k in range(3):
            out.append(sig[k] * s[2 * k] - om[k] * s[2 * k + 1])
            out.append(sig[k] * s[2 * k + 1] + om[k] * s[2 * k] + (c[0] if k > 0 else 0.0))
        return out
    raise ValueError(name)


def job_system(name, sd):
    fn = xform.transform(get_system(name))
    res = {}

    def h(eng):
        st, c = rvec("s", sd), rvec("c", 1)
        out = fresh_array("o", (sd,), real=True)
        fn(st, core.fresh_real("t"), c, out)
        res.update(s=[lift(st[i]) for i in range(sd)], c=[lift(c[0])], o=[out.cells[i] for i in range(sd)])
        return "ran"
    eng = Engine()
    eng.explore(h)
    common = dict(paths=eng.paths, queries=dict(sat=0, unsat=0, unknown=0))
    problems = []
    if eng.violations or "o" not in res:
        problems.append("kernel writes its inputs / leaves its arrays: " + str([v.label for v in eng.violations]))
    elif not all(isinstance(o, SymReal) or isinstance(o, (int, float)) for o in res["o"]):
        problems.append("not every output entry is written")
    else:
        exp = spec_system(name, res["s"], res["c"])
        for i in range(sd):
            common["queries"]["unsat"] += 1
            # the constant 2.6666666666666665 is the double nearest to 8/3: compare with a tolerance-free rational check on the float
            if not is_zero(lift(res["o"][i]) - exp[i]):
                d = z3.simplify(lift(res["o"][i]) - exp[i], som=True)
                # allow the representation error of float literals (e.g. 8/3 written as 2.6666666666666665)
                if not _tiny_coefficients(d):
                    problems.append(f"equation {i} differs from the published system")
    if problems:
        w = dict(kind="system", name=name, sd=sd, problems=problems)
        bad, info = replay(w)
        w["observed"] = info
        if bad:
            return violated("system_equations", f"dynamic_control/systems/{name}.py", f"{name}: " + "; ".join(problems) + f" {info}", w, validated=1, **common)
        return inconclusive(f"does not replay: {w}", **common)
    return held(summary=f"{name}: equations equal the published system",
                sample=dict(system=name, dims=sd), **common)


def _tiny_coefficients(d):
    """true if every numeric coefficient of the polynomial d is below 1e-15 in magnitude (float-literal representation error)"""
    ok = True
    st = [d]
    seen = set()
    found = False
    while st:
        t = st.pop()
        if t.get_id() in seen:
            continue
        seen.add(t.get_id())
        if z3.is_rational_value(t):
            found = True
            if abs(float(t.as_fraction())) > 1e-15 and abs(float(t.as_fraction())) != 1.0:
                ok = False
        st.extend(t.children())
    return ok and found


def job_selftest():
    """concrete cross-check of the real compiled kernels against the float reference implementations"""
    cnt = 0
    cases = [dict(kind=k, sd=sd, state=[2.0, 3.0, 5.0][:sd]) for k in ("linear", "quadratic", "cubic") for sd in (2, 3)]
    cases += [dict(kind="peaks", sd=sd, idx=i) for sd in (2, 3) for i in range(3)]
    cases += [dict(kind="ann", sd=sd, cd=cd, layers=list(l)) for (sd, cd, l) in ((2, 1, ()), (3, 2, (2, 2)), (2, 1, (3, 4)), (4, 3, (5, 2, 3)))]
    cases += [dict(kind="system", name="stuart_landau", sd=2), dict(kind="system", name="lorenz", sd=3), dict(kind="system", name="three_coupled_oscillators", sd=6)]
    rnd = random.Random(3)
    for sd in (2, 3):
        for idx in range(3):
            ctrl = get_controller("partially_linear", sd, idx)
            for _ in range(10):
                cases.append(dict(kind="partially_linear", sd=sd, idx=idx, state=[float(rnd.randint(-4, 4)) for _ in range(sd)],
                                  params=[float(rnd.randint(-5, 5)) for _ in range(ctrl.param_dims)]))
    for w in cases:
        bad, info = replay(w)
        cnt += 1
        if bad:
            w["observed"] = info
            return violated("selftest", "dynamic_control/controllers", f"concrete check failed: {w}", w, validated=cnt, paths=cnt)
    return held(validated=cnt, paths=cnt, queries={}, summary=f"self-test: {cnt} concrete evaluations of the compiled kernels agree with the float references")


def ann_archs(tier, chunk, nchunks):
    small = [(sd, cd, tuple(l)) for sd in (2, 3, 4) for cd in (1, 2, 3) for l in ([], [1], [2], [3], [1, 1], [2, 2], [3, 2], [2, 3], [3, 3], [3, 4], [4, 4])]
    extra = [(2, 1, (3, 3, 2)), (3, 1, (5, 5, 5)), (2, 2, (4, 5)), (2, 3, (3, 3, 3)), (3, 2, (2, 2, 2)), (4, 2, (6, 5)), (6, 3, (8, 8, 8)), (6, 1, (8,)), (5, 2, (7, 3, 6))]
    allx = small + extra
    rnd = random.Random(99)
    for sd in range(2, 7):
        for cd in range(1, 7):
            for depth in range(0, 4):
                for _rep in range(1 if tier == "quick" else 6):
                    allx.append((sd, cd, tuple(rnd.randint(1, 8) for _ in range(depth))))
    for l in itertools.product(range(1, 9), repeat=2):
        allx.append((2, 1, l))
    if tier == "thorough":
        for sd, cd in ((3, 2), (6, 6), (4, 1)):
            for l in itertools.product(range(1, 9), repeat=2):
                allx.append((sd, cd, l))
        for l in itertools.product(range(1, 9, 2), repeat=3):
            allx.append((2, 1, l))
            allx.append((5, 3, l))
    allx = sorted(set(allx))
    return allx[chunk::nchunks]


def jobs(tier):
    js = [Job("selftest", job_selftest, {}, "selftest", 600)]
    for kind in ("linear", "quadratic", "cubic"):
        for sd in (2, 3):
            js.append(Job(f"polynomial/{kind}/{sd}d", job_polynomial, dict(kind=kind, sd=sd), "complete_polynomial", 600))
    for sd in (2, 3):
        for idx in range(3):
            js.append(Job(f"partially_linear/{sd}d/{idx + 2}anchors", job_partially_linear, dict(sd=sd, idx=idx), "nearest_anchor_law", 900))
        js.append(Job(f"peaks/{sd}d", job_peaks, dict(sd=sd), "peaks_equal_network", 600))
    nchunks = 16 if tier == "quick" else 32
    for c in range(nchunks):
        js.append(Job(f"ann/chunk{c}", job_ann, dict(archs=ann_archs(tier, c, nchunks)), "ann_equals_network", 1200 if tier == "quick" else 3000))
    for name, sd in (("stuart_landau", 2), ("lorenz", 3), ("three_coupled_oscillators", 6)):
        js.append(Job(f"system/{name}", job_system, dict(name=name, sd=sd), "system_equations", 300))
    return js


def meta(tier):
    return dict(
        bounds=dict(controllers="linear/quadratic/cubic 2d+3d; partially linear 2-4 anchors 2d+3d; peaks 1-3 2d+3d",
                    ann="generated architectures as programs: inputs 2..6 (Controller requires >= 2), outputs 1..6, 0..3 hidden layers of width 1..8 (one seeded architecture per (in, out, depth) combination, all width pairs 1..8 for 2-[a,b]-1, all small ones up to width 4; thorough: 6 per combination, all pairs for three more in/out shapes, odd-width triples)",
                    values="all real states, times and parameter vectors (z3 Real)"),
        outside=["IEEE rounding (fastmath=True makes the compiled result association dependent anyway)", "min_ann (iterative minimiser: not encoded)", "predefined controllers",
                 "the three-coupled-oscillators system is compared with equation (3.1) of the paper cited in the module as I know it (frequencies 1, pi, pi^2) - not re-checkable offline"],
        assumptions=["reals stand in for floats: the claim is algebraic", "arctan and exp are uninterpreted functions, the same symbol in code and reference",
                     "documented parameter layout of networks: per neuron bias then one weight per input; per output multiplier, bias, weights"],
        stubs=["numba.njit removed for generated ANN text (captured from the real CodeGenerator before compilation)", "System -> object with state_dims/control_dims"])
