"""C02 - packing objectives agree with bin count, definitions and bounds."""
from __future__ import annotations

import random
import time

import z3

from symx import core, xform, util, backend
from symx.core import Engine, SymArray, SymInt, fresh_array, fresh_int, lift, mk, Abort, EngineError
from symx.runner import Job, held, violated, inconclusive
from . import pack_common as P

PROP = "C02"

OBJECTIVES = ["BinCount", "BinCountAndLastEmpty", "BinCountAndEmpty", "BinCountAndLastSmall", "BinCountAndSmall",
              "BinCountAndLastSkyline", "BinCountAndLowestSkyline"]
COUNTING = {"BinCount", "BinCountAndLastEmpty", "BinCountAndEmpty"}


def s_ceil_div(a, b):
    return -((-a) // b)


def load(name):
    import importlib
    modname = {"BinCount": "bin_count", "BinCountAndLastEmpty": "bin_count_and_last_empty", "BinCountAndEmpty": "bin_count_and_empty",
               "BinCountAndLastSmall": "bin_count_and_last_small", "BinCountAndSmall": "bin_count_and_small",
               "BinCountAndLastSkyline": "bin_count_and_last_skyline", "BinCountAndLowestSkyline": "bin_count_and_lowest_skyline"}[name]
    mod = importlib.import_module("moptipyapps.binpacking2d.objectives." + modname)
    cls = getattr(mod, name)
    ov = core.install_builtins(dict(ceil_div=s_ceil_div))

    def method(mname):
        for c in cls.__mro__:
            if mname in c.__dict__:
                return xform.transform(c.__dict__[mname], overrides=ov, owner=c)
        raise EngineError(f"{name}.{mname} not found")
    m = {k: method(k) for k in ("__init__", "evaluate", "lower_bound", "upper_bound", "to_bin_count")}
    return cls, m


def spec_value(name, X, n, W, H, k, wmax):
    """closed forms of the documented objective values (z3 terms) for rows X with max bin k"""
    A = W * H
    area = [(x[4] - x[2]) * (x[5] - x[3]) for x in X]

    def per_bin(vals, j):
        return z3.Sum([z3.If(X[i][1] == j, vals[i], 0) for i in range(n)])

    def min_over_bins(f):
        r = f(1)
        for j in range(2, n + 1):
            v = f(j)
            r = z3.If(z3.And(j <= k, v < r), v, r)
        return r

    def skyline(j):
        cols = []
        for c in range(wmax):
            top = z3.IntVal(0)
            for i in range(n):
                cov = z3.And(X[i][1] == j, X[i][2] <= c, c < X[i][4])
                top = z3.If(z3.And(cov, X[i][5] > top), X[i][5], top)
            cols.append(z3.If(c < W, top, 0))
        return z3.Sum(cols)
    ones = [z3.IntVal(1)] * n
    if name == "BinCount":
        return k, None
    if name == "BinCountAndLastEmpty":
        return (k - 1) * n + per_bin(ones, k), n
    if name == "BinCountAndEmpty":
        return (k - 1) * n + min_over_bins(lambda j: per_bin(ones, j)), n
    if name == "BinCountAndLastSmall":
        return (k - 1) * A + per_bin(area, k), A
    if name == "BinCountAndSmall":
        return (k - 1) * A + min_over_bins(lambda j: per_bin(area, j)), A
    if name == "BinCountAndLastSkyline":
        return (k - 1) * A + skyline(k), A
    if name == "BinCountAndLowestSkyline":
        return (k - 1) * A + min_over_bins(skyline), A
    raise ValueError(name)


def py_spec(name, rows, n, W, H):
    k = max(r[1] for r in rows)
    A = W * H
    area = lambda r: (r[4] - r[2]) * (r[5] - r[3])

    def sky(j):
        tot = 0
        for c in range(W):
            tot += max([r[5] for r in rows if r[1] == j and r[2] <= c < r[4]] + [0])
        return tot
    if name == "BinCount":
        return k
    if name == "BinCountAndLastEmpty":
        return (k - 1) * n + sum(1 for r in rows if r[1] == k)
    if name == "BinCountAndEmpty":
        return (k - 1) * n + min(sum(1 for r in rows if r[1] == j) for j in range(1, k + 1))
    if name == "BinCountAndLastSmall":
        return (k - 1) * A + sum(area(r) for r in rows if r[1] == k)
    if name == "BinCountAndSmall":
        return (k - 1) * A + min(sum(area(r) for r in rows if r[1] == j) for j in range(1, k + 1))
    if name == "BinCountAndLastSkyline":
        return (k - 1) * A + sky(k)
    if name == "BinCountAndLowestSkyline":
        return (k - 1) * A + min(sky(j) for j in range(1, k + 1))
    raise ValueError(name)


def real_objective(name, W, H, items, rows):
    import importlib
    import numpy as np
    from moptipyapps.binpacking2d.instance import Instance
    from moptipyapps.binpacking2d.packing import Packing
    cls, _ = load(name)
    inst = Instance("i", W, H, [list(i) for i in items])
    y = Packing(inst)
    np.copyto(y, np.array(rows, dtype=np.int64), casting="unsafe")
    y.n_bins = max(r[1] for r in rows)
    o = cls(inst)
    v = int(o.evaluate(y))
    return dict(value=v, lower=int(o.lower_bound()), upper=int(o.upper_bound()), to_bin_count=int(o.to_bin_count(v)),
                lower_bound_bins=int(inst.lower_bound_bins))


def replay(w):
    if w.get("kind") == "bounds":
        r = real_bounds_only(w["objective"], w["W"], w["H"], [tuple(i) for i in w["items"]])
        exp = py_bounds(w["objective"], w["W"], w["H"], [tuple(i) for i in w["items"]], r["lower_bound_bins"])
        return (r["lower"], r["upper"]) != exp, dict(real=[r["lower"], r["upper"]], documented=list(exp))
    rows, items, W, H, name = w["rows"], [tuple(i) for i in w["items"]], w["W"], w["H"], w["objective"]
    k = max(r[1] for r in rows)
    ok, why = P.py_feasible(rows, items, W, H, k)
    if not ok:
        return False, dict(note="witness packing is not feasible: " + why)
    r = real_objective(name, W, H, items, rows)
    exp = py_spec(name, rows, len(rows), W, H)
    r["expected"] = exp
    r["bins"] = k
    bad = (r["value"] != exp) or not (r["lower"] <= r["value"] <= r["upper"]) or (r["to_bin_count"] != k)
    return bad, r


def job_objective(name, reps, dmax, timeout_s=900):
    cls, M = load(name)
    from moptipyapps.binpacking2d.packing import Packing
    n = sum(reps)
    state = {}
    counting = name in COUNTING

    if not counting:
        # with dims <= dmax the constructor picks one concrete storage type: show that with the symbolic dtype model
        # first, then run the main harness with that type fixed (keeps the Int->BV translation narrow)
        from moptipy.utils.nputils import int_range_to_dtype
        cdt = core.dtype_of(int_range_to_dtype(0, max(2 * dmax + 1, n + 1), True))

        def pre(eng):
            inst = P.make_instance(eng, reps)
            eng.assume(z3.And(inst.W.e <= dmax, inst.H.e <= dmax))
            eng.oblige(z3.And(inst.dtype.lo == cdt.lo, inst.dtype.hi == cdt.hi), "dtype for small dims is the concrete small type", now=True)
            return "dtype"
        e0 = Engine(timeout_ms=60000)
        ok0 = e0.explore(pre)
        if not ok0 or e0.violations or not e0.outcomes.get("dtype"):
            return inconclusive(f"storage type for dims <= {dmax} is not {cdt}: {e0.stats()} {[v.label for v in e0.violations]}")
        P.FORCE_DTYPE = cdt

    def h(eng):
        inst = P.make_instance(eng, reps)
        W, H = inst.W.e, inst.H.e
        if not counting:
            eng.assume(z3.And(W <= dmax, H <= dmax))
        y = fresh_array("y", (n, 6), dtype=inst.dtype, masq=Packing)
        y.instance = inst
        X = P.rows_of(y, n)
        k = z3.Int("k")
        eng.assume(z3.And(core.in_dtype(y), P.feasible(X, inst, W, H, k)))
        lb = fresh_int("lb")
        eng.assume(z3.And(lb.e >= 1, lb.e <= k))
        inst.lower_bound_bins = lb
        y.n_bins = SymInt(k)
        obj = M["__init__"]._shell.__new__(M["__init__"]._shell) if hasattr(M["__init__"], "_shell") else cls.__new__(cls)
        M["__init__"](obj, inst)
        val = M["evaluate"](obj, y)
        lo = M["lower_bound"](obj)
        hi = M["upper_bound"](obj)
        tb = M["to_bin_count"](obj, val)
        eng.flush()                     # index / dtype obligations of the kernel (linear)
        spec, scale = spec_value(name, X, n, W, H, k, dmax if not counting else 1)
        post = [lift(val) == spec, lift(lo) <= lift(val), lift(val) <= lift(hi), lift(tb) == k]
        if scale is not None:
            post.append(z3.And(lift(val) - (k - 1) * scale >= 1, lift(val) - (k - 1) * scale <= scale))
        labels = ["value equals the documented definition", "lower_bound() <= value", "value <= upper_bound()",
                  "to_bin_count(value) == bins", "tie-breaker in 1..scale (fewer bins => strictly smaller value)"]
        asr = list(eng.s.assertions())
        if not counting:
            # numeric bounds implied by the assumptions (dims <= dmax, 1 <= lb <= k <= n); stated explicitly so that
            # the exact Int->BV translation can pick its width
            extra = [z3.And(lb.e >= 1, lb.e <= n, k >= 1, k <= n)]
            for i in range(len(reps)):
                extra.append(z3.And(z3.Int(f"w{i}") >= 1, z3.Int(f"w{i}") <= dmax, z3.Int(f"h{i}") >= 1, z3.Int(f"h{i}") <= dmax))
            extra.append(z3.And(W >= 1, H >= 1))
            asr = asr + extra
        for lab, c in zip(labels, post):
            r = backend.solve(asr, z3.Not(c), timeout_s=120, label=f"{name} {lab}", backends=("bv", "lia") if not counting else ("lia", "bv"))
            state.setdefault("q", []).append(r)
            if r.status == "unknown":
                raise Abort("unknown")
            if r.status == "sat":
                # prefer a small witness
                state["viol"] = (lab, r.model)
                raise Abort("violated-ext")
        return "checked"
    eng = Engine(timeout_ms=60000, deadline=time.time() + timeout_s)
    ok = eng.explore(h)
    q, st = util.qstats(state.get("q", []))
    q = dict(sat=q["sat"] + eng.n_sat, unsat=q["unsat"] + eng.n_unsat, unknown=q["unknown"] + eng.unknown)
    common = dict(paths=eng.paths, queries=q, solver_s=round(st + eng.t_solver, 2))
    viol = state.get("viol")
    if eng.violations and not viol:
        v = eng.violations[0]
        viol = (v.label, {d.name(): v.model[d].as_long() for d in v.model.decls() if z3.is_int_value(v.model[d])})
    if viol:
        lab, md = viol
        W, H, items = P.model_instance(md, reps)
        rows = [[int(md.get(f"y_{i * 6 + c}", 0)) for c in range(6)] for i in range(n)]
        w = dict(objective=name, W=W, H=H, items=[list(i) for i in items], rows=rows, label=lab, lb_assumed=md.get("lb"))
        try:
            bad, info = replay(w)
        except Exception as ex:
            return inconclusive(f"replay raised {type(ex).__name__}: {ex}; {w}", **common)
        w["observed"] = info
        if bad:
            return violated("objective_" + name, f"binpacking2d/objectives ({name})", f"{name}: {lab}: bin {W}x{H} items {items} rows {rows} -> {info}", w,
                            validated=1, **common)
        return inconclusive(f"model does not replay ({lab}): {w}", **common)
    if not ok or not eng.outcomes.get("checked"):
        return inconclusive(f"exploration not conclusive: {eng.stats()}", **common)
    return held(summary=f"{name} reps={reps} dims<={dmax if not counting else '10^12'}: {eng.paths} paths, 5 clauses each",
                sample=dict(objective=name, reps=reps, clauses=["definition", "lower", "upper", "to_bin_count", "tie-breaker"]), **common)


def py_bounds(name, W, H, items, lb):
    n = sum(i[2] for i in items)
    A = W * H
    if name == "BinCount":
        return lb, n
    if name in ("BinCountAndLastEmpty", "BinCountAndEmpty"):
        return max(n, (lb - 1) * n + 1), n * n
    total = sum(w * h * m for (w, h, m) in items)
    small = min(w * h for (w, h, m) in items)
    return (total if lb == 1 else (lb - 1) * A + small), n * A


def job_bounds(name, reps):
    """lower_bound()/upper_bound() equal their documented closed forms for every instance (sizes to 10^12).  Reads from the
    instance matrix in this plain-Python code are numpy scalars of the instance dtype: arithmetic on two of them must fit it."""
    cls, M = load(name)
    n = sum(reps)

    def h(eng):
        core.NUMPY_SCALARS = True
        try:
            inst = P.make_instance(eng, reps)
            lb = fresh_int("lb")
            eng.assume(z3.And(lb.e >= 1, lb.e <= n))
            inst.lower_bound_bins = lb
            obj = M["__init__"]._shell.__new__(M["__init__"]._shell) if hasattr(M["__init__"], "_shell") else cls.__new__(cls)
            M["__init__"](obj, inst)
            lo = M["lower_bound"](obj)
            hi = M["upper_bound"](obj)
        finally:
            core.NUMPY_SCALARS = False
        eng.flush()
        W, H = inst.W.e, inst.H.e
        A = W * H
        if name == "BinCount":
            elo, ehi = lb.e, z3.IntVal(n)
        elif name in ("BinCountAndLastEmpty", "BinCountAndEmpty"):
            elo, ehi = z3.If((lb.e - 1) * n + 1 > n, (lb.e - 1) * n + 1, z3.IntVal(n)), z3.IntVal(n * n)
        else:
            areas = [lift(w) * lift(hh) for (w, hh, r) in inst.items]
            small = areas[0]
            for a in areas[1:]:
                small = z3.If(a < small, a, small)
            total = z3.Sum([a * r for a, (w, hh, r) in zip(areas, inst.items)])
            elo, ehi = z3.If(lb.e == 1, total, (lb.e - 1) * A + small), n * A
        for lab, c in (("lower_bound() equals its documented formula", lift(lo) == elo), ("upper_bound() equals its documented formula", lift(hi) == ehi)):
            if not z3.is_true(z3.simplify(c, som=True)):
                eng.oblige(c, lab, now=True)
        return "bounds"
    eng = Engine(timeout_ms=120000)
    eng.prefer = P.small_witness_prefs(len(reps))
    ok = eng.explore(h)
    common = dict(paths=eng.paths, queries=dict(sat=eng.n_sat, unsat=eng.n_unsat, unknown=eng.unknown), solver_s=round(eng.t_solver, 2), vacuity=dict(outcomes=eng.outcomes))
    if eng.violations:
        v = eng.violations[0]
        md = {d.name(): v.model[d].as_long() for d in v.model.decls() if z3.is_int_value(v.model[d])}
        W, H, items = P.model_instance(md, reps)
        cands = [(W, H, items)]
        import itertools
        for perm in itertools.permutations(items):
            cands.append((W, H, list(perm)))
        for (Wc, Hc, it) in cands:
            try:
                r = real_bounds_only(name, Wc, Hc, it)
            except Exception as ex:
                continue
            exp = py_bounds(name, Wc, Hc, it, r["lower_bound_bins"])
            if (r["lower"], r["upper"]) != exp:
                w = dict(objective=name, W=Wc, H=Hc, items=[list(i) for i in it], label=v.label, kind="bounds", observed=dict(real=[r["lower"], r["upper"]], documented=list(exp), dtype=r["dtype"]))
                return violated("objective_" + name, f"binpacking2d/objectives ({name}) bounds", f"{name}: bin {Wc}x{Hc} items {it}: bounds {r['lower']}, {r['upper']} but the documented formulas give {exp} (dtype {r['dtype']})",
                                w, validated=1, **common)
        return inconclusive(f"{name}: '{v.label}' fails symbolically for bin {W}x{H} items {items} but the real bounds equal the formulas", **common)
    if not ok or not eng.outcomes.get("bounds"):
        return inconclusive(f"not conclusive {eng.stats()}", **common)
    return held(summary=f"{name} reps={reps}: lower/upper bound equal their documented formulas for all sizes ({eng.paths} paths)", sample=dict(objective=name, reps=reps, clause="bounds formulas"), **common)


def real_bounds_only(name, W, H, items):
    from moptipyapps.binpacking2d.instance import Instance
    cls, _ = load(name)
    inst = Instance("i", W, H, [list(i) for i in items])
    o = cls(inst)
    import warnings
    with warnings.catch_warnings():
        warnings.simplefilter("ignore")
        return dict(lower=int(o.lower_bound()), upper=int(o.upper_bound()), lower_bound_bins=int(inst.lower_bound_bins), dtype=str(inst.dtype))


def job_selftest(seed):
    """concrete cross-check: real objectives on random feasible packings vs python definitions"""
    rnd = random.Random(seed)
    cnt = 0
    for _ in range(60):
        W, H = rnd.randint(2, 12), rnd.randint(2, 12)
        items = [(rnd.randint(1, W), rnd.randint(1, H), rnd.randint(1, 3)) for _i in range(rnd.randint(1, 3))]
        base = [i + 1 for i, it in enumerate(items) for _k in range(it[2])]
        rnd.shuffle(base)
        x = [v * rnd.choice((1, -1)) for v in base]
        inst, y, rows, nb = P.real_decode(rnd.choice((1, 2)), W, H, items, x)
        rnd.shuffle(rows)
        for name in OBJECTIVES:
            w = dict(objective=name, W=W, H=H, items=[list(i) for i in items], rows=rows)
            bad, info = replay(w)
            cnt += 1
            if bad:
                w["observed"] = info
                return violated("objective_" + name, f"binpacking2d/objectives ({name})", f"{name} on a concrete packing: {w}", w, validated=cnt, paths=cnt)
    return held(validated=cnt, paths=cnt, queries={}, summary=f"self-test: {cnt} real objective evaluations on decoded (row-shuffled) packings equal the python definitions")


def jobs(tier):
    import os
    seed = int(os.environ.get("VERIF_SEED", "0") or 0)
    js = [Job("selftest", job_selftest, dict(seed=seed), "selftest", 600)]
    for name in OBJECTIVES:
        for reps in ([1], [1, 1], [2, 1], [1, 1, 1]) + (([1, 2, 1], [1, 1, 1, 1]) if tier == "thorough" else ()):
            js.append(Job(f"bounds/{name}/reps{'-'.join(map(str, reps))}", job_bounds, dict(name=name, reps=list(reps)), "objective_" + name, 600))
    nmax = 3 if tier == "quick" else 4
    dmax = 6 if tier == "quick" else 8
    for name in OBJECTIVES:
        for n in range(1, nmax + 1):
            d = dmax
            if "Skyline" in name and n >= 3:
                d = 4 if tier == "quick" else 5      # 3+ rows under a skyline: smaller bins (nonlinear, measured 58 s at 4)
                if n > 3 or (tier == "quick" and "Lowest" in name):
                    continue                          # lowest skyline with 3 rows: 400 s, thorough only
            if "Small" in name and tier == "thorough" and n >= 3:
                d = 5 if n == 3 else 3               # area objectives: dims 8 (3 rows) / 6 and 4 (some 3-4 row cases) ended in solver timeouts when measured
            for reps in ([[1] * n] if tier == "quick" else [r for r in P.compositions(n) if r == sorted(r, reverse=True)]):
                dd = d
                if "Skyline" in name and tier == "thorough" and reps == [1, 1, 1]:
                    dd = 4                           # three distinct item types under a skyline: dims 5 timed out (measured), 4 decides
                js.append(Job(f"{name}/reps{'-'.join(map(str, reps))}/d{dd}", job_objective, dict(name=name, reps=reps, dmax=dd,
                                                                                             timeout_s=900 if tier == "quick" else 3000),
                              "objective_" + name, 1000 if tier == "quick" else 3300, weight=n))
    return js


def meta(tier):
    return dict(
        bounds=dict(rows="<= 3 rows (thorough 4; skyline objectives 3)", packings="every feasible packing (declarative oracle): unsorted rows, any bin numbering 1..k",
                    sizes="counting objectives: sizes up to 10^12; area objectives: bin dims <= 6 (thorough: 8 up to 2 rows, 5 with 3 rows, 3 with 4 rows - larger combinations ended in solver timeouts when measured); "
                          "skyline objectives with 3 rows: dims <= 4 (thorough 5 for repeated item types, 4 for three distinct types) (nonlinear, bit-vector back-end)",
                    lower_bound_bins="symbolic with 1 <= lb <= k (what C03 establishes)",
                    bounds_formulas="lower_bound()/upper_bound() of all seven objectives equal their documented closed forms for every instance with <= 3 item types (thorough 4), sizes to 10^12; "
                                    "values read from the instance matrix in this plain-Python code are numpy scalars of the instance dtype (arithmetic on two of them must fit it)"),
        outside=["more rows / larger dims for the area objectives", "cross-objective agreement inside packing_result.from_packing_and_end_result"],
        assumptions=["packings are feasible by the C01 oracle", "lower_bound_bins is any value in 1..k", "quick tier: one item type per row (reps all 1)",
                     "dominance (fewer bins => strictly smaller value) is shown through the tie-breaker range 1..scale"],
        stubs=["ceil_div re-implemented (-((-a)//b))", "np.ndarray -> SymArray", "Instance: real constructor up to total_item_area, lower_bound_bins symbolic"])
