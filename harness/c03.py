"""C03 - the bin-count lower bound never exceeds an achievable packing.

The optimum is NP-hard, so the solver is the oracle for it: for every instance of an exhaustive small family the
real constructor runs concretely and the query "exists a feasible packing (with rotation) into lower_bound_bins-1
bins" must be unsat.  The instance side of the quantifier is enumerated (and, in the thorough tier, sampled);
the packing side (all placements, all rotations, all bin assignments) is decided by the solver."""
from __future__ import annotations

import itertools
import random
import time

import z3

from symx import backend, util, xform, core
from symx.core import Engine, fresh_int, lift
from symx.runner import Job, held, violated, inconclusive

PROP = "C03"


def exists_packing(W, H, items, k, timeout_ms=60000):
    """items: list of (w, h); returns (status, model-packing)"""
    s = z3.Solver()
    s.set("timeout", timeout_ms)
    vs = []
    for idx, (w, h) in enumerate(items):
        b, x, y, r = z3.Int(f"b{idx}"), z3.Int(f"x{idx}"), z3.Int(f"y{idx}"), z3.Bool(f"r{idx}")
        ww = z3.If(r, h, w)
        hh = z3.If(r, w, h)
        s.add(b >= 1, b <= k, x >= 0, y >= 0, x + ww <= W, y + hh <= H)
        vs.append((b, x, y, ww, hh))
    for i in range(len(vs)):
        for j in range(i):
            bi, xi, yi, wi, hi = vs[i]
            bj, xj, yj, wj, hj = vs[j]
            s.add(z3.Or(bi != bj, xi + wi <= xj, xj + wj <= xi, yi + hi <= yj, yj + hj <= yi))
    for b in range(1, k + 1):        # implied per-bin area lemma: keeps area-decided cases cheap
        s.add(z3.Sum([z3.If(v[0] == b, w * h, 0) for v, (w, h) in zip(vs, items)]) <= W * H)
    t = time.time()
    r = s.check()
    SOLVER_S[0] += time.time() - t
    if r == z3.sat:
        m = s.model()
        rows = []
        for idx, (b, x, y, ww, hh) in enumerate(vs):
            ev = lambda e: m.eval(e, model_completion=True).as_long()
            rows.append([idx, ev(b), ev(x), ev(y), ev(x + ww), ev(y + hh)])
        return "sat", rows
    return ("unsat" if r == z3.unsat else "unknown"), None


SOLVER_S = [0.0]


def check_packing(W, H, items, rows, k):
    """independent plain-python check of a witness packing (rows: [item index, bin, l, b, r, t])"""
    for (i, b, l, bt, r, t) in rows:
        w, h = items[i]
        if not ((r - l, t - bt) in ((w, h), (h, w))) or l < 0 or bt < 0 or r > W or t > H or not (1 <= b <= k):
            return False
    for a in range(len(rows)):
        for c in range(a):
            _, b1, l1, bt1, r1, t1 = rows[a]
            _, b2, l2, bt2, r2, t2 = rows[c]
            if b1 == b2 and not (r1 <= l2 or r2 <= l1 or t1 <= bt2 or t2 <= bt1):
                return False
    return sorted(r[0] for r in rows) == list(range(len(items)))


def real_bounds(W, H, combo):
    from moptipyapps.binpacking2d.instance import Instance
    rows = {}
    for c in combo:
        rows[c] = rows.get(c, 0) + 1
    inst = Instance("a", W, H, [[w, h, m] for (w, h), m in rows.items()])
    return int(inst.lower_bound_bins), int(inst.total_item_area), inst


def replay(w):
    lb, area, inst = real_bounds(w["W"], w["H"], [tuple(i) for i in w["items"]])
    geo = -(-area // (w["W"] * w["H"]))
    info = dict(lower_bound_bins=lb, area_bound=geo)
    if w["clause"] == "at_least_area_bound":
        return lb < geo, info
    ok = check_packing(w["W"], w["H"], [tuple(i) for i in w["items"]], w["packing"], w["bins"])
    info["packing_feasible"] = ok
    info["packing_bins"] = w["bins"]
    return ok and w["bins"] < lb, info


def shapes(W, H, both=False):
    """item shapes that fit the bin in some orientation; up to rotation (w <= h) unless both=True"""
    mx, mn = max(W, H), min(W, H)
    sh = [(w, h) for w in range(1, mx + 1) for h in range(w, mx + 1) if w <= mn and h <= mx]
    if both:
        sh = sorted(set(sh) | {(h, w) for (w, h) in sh})
    return sh


def job_family(bins, n_items, label, sample=None, seed=0, time_budget=None, both=False):
    """every multiset of n_items item shapes for every bin in `bins` (or `sample` random multisets per bin)"""
    t0 = time.time()
    cnt = q = unk = 0
    rnd = random.Random(seed)
    first = None
    for (W, H) in bins:
        sh = shapes(W, H, both)
        if sample is None:
            it = itertools.combinations_with_replacement(sh, n_items)
        else:
            it = (tuple(sorted(rnd.choice(sh) for _ in range(n_items))) for _ in range(sample))
        for combo in it:
            if time_budget and time.time() - t0 > time_budget:
                break
            lb, area, _ = real_bounds(W, H, combo)
            cnt += 1
            geo = -(-area // (W * H))
            if lb < geo:
                w = dict(W=W, H=H, items=[list(c) for c in combo], clause="at_least_area_bound")
                bad, info = replay(w)
                w["observed"] = info
                return violated("at_least_area_bound", "binpacking2d/instance.py:Instance.__new__/lower_bound_geo",
                                f"lower bound {lb} below the area bound {geo}: bin {W}x{H} items {combo}", w, validated=1, paths=cnt,
                                queries=dict(sat=0, unsat=q, unknown=unk))
            if lb > geo and lb >= 2:
                st, rows = exists_packing(W, H, list(combo), lb - 1)
                q += 1
                if first is None:
                    first = dict(bin=[W, H], items=[list(c) for c in combo], lower_bound=lb, area_bound=geo, query=f"exists packing into {lb - 1} bins", answer=st)
                if st == "unknown":
                    unk += 1
                elif st == "sat":
                    w = dict(W=W, H=H, items=[list(c) for c in combo], clause="not_above_feasible", packing=rows, bins=lb - 1)
                    bad, info = replay(w)
                    w["observed"] = info
                    common = dict(paths=cnt, queries=dict(sat=1, unsat=q - 1 - unk, unknown=unk))
                    if bad:
                        return violated("not_above_feasible", "binpacking2d/instance.py:_lower_bound_damv",
                                        f"lower_bound_bins={lb} but a feasible packing with {lb - 1} bins exists: bin {W}x{H} items {combo} packing {rows}",
                                        w, validated=1, **common)
                    return inconclusive(f"model packing does not replay: {w}", **common)
    common = dict(paths=cnt, queries=dict(sat=0, unsat=q - unk, unknown=unk), solver_s=round(SOLVER_S[0], 2))
    if unk:
        return inconclusive(f"{unk} packing-existence queries unknown", **common)
    return held(summary=f"{label}: {cnt} instances (real constructor), {q} 'packing into lb-1 bins' queries all unsat, lb >= area bound everywhere ({time.time() - t0:.0f}s)",
                sample=first or dict(note="no instance of this family has lb above the area bound"), validated=cnt, **common)


def job_geo_arith(vmax):
    """the constructor's own ceiling arithmetic for the area bound, on symbolic totals (bit-vector back-end)"""
    import ast
    import moptipyapps.binpacking2d.instance as im
    from . import pack_common as P
    ov = core.install_builtins(dict(check_int_range=P.s_check_int_range))

    def pick(fd):
        b = xform.body_wo_doc(fd)
        i0 = next(i for i, st in enumerate(b) if ast.unparse(st).startswith("bin_area"))
        i1 = next(i for i, st in enumerate(b) if "lower_bound_geo = check_int_range" in ast.unparse(st))
        return b[i0:i1]
    blk = xform.extract_block(im.Instance.__new__, pick, overrides=ov, name="geo")
    res = {}

    def h(eng):
        W, H, A = fresh_int("W"), fresh_int("H"), fresh_int("A")
        eng.assume(z3.And(W.e >= 1, W.e <= vmax, H.e >= 1, H.e <= vmax, A.e >= 1, A.e <= vmax * vmax * 4))
        out = xform.call_block(blk, bin_height=H, bin_width=W, item_area=A)
        g = lift(out["lower_bound_geo"])
        asr = list(eng.s.assertions())
        r = backend.solve(asr, z3.Not(z3.And(g * W.e * H.e >= A.e, (g - 1) * W.e * H.e < A.e)), timeout_s=300, label="geo ceil")
        res.setdefault("r", []).append(r)
        if r.status != "unsat":
            res["bad"] = r
            raise core.Abort("violated-ext" if r.status == "sat" else "unknown")
        return "ok"
    eng = Engine()
    ok = eng.explore(h)
    q, st = util.qstats(res.get("r", []))
    common = dict(paths=eng.paths, queries=q, solver_s=st)
    if "bad" in res:
        r = res["bad"]
        if r.status == "sat":
            return inconclusive(f"area-bound arithmetic counterexample (totals W={r.model.get('W')} H={r.model.get('H')} area={r.model.get('A')}); "
                                "the family jobs replay such cases through the constructor", **common)
        return inconclusive("solver unknown on the ceiling arithmetic", **common)
    if not ok:
        return inconclusive(f"not conclusive {eng.stats()}", **common)
    return held(summary=f"area bound = ceil(item_area / bin_area) for all totals up to {vmax}: {eng.paths} paths",
                sample=dict(block=blk._src, bound=vmax), **common)


def job_lbq(W, H, m, timeout_s=1500):
    """__lb_q on a SYMBOLIC non-increasing list of m square sides (2..H) and symbolic q for a concrete bin W >= H: on every path
    'exists a packing of these squares into bound-1 bins' must be unsat (sizes AND placements symbolic in one query)"""
    import moptipyapps.binpacking2d.instance as im
    lbq = xform.transform(getattr(im, "__lb_q"), core.install_builtins())
    state = dict(q=[], bad=None)

    def h(eng):
        ls = [fresh_int(f"l{i}") for i in range(m)]
        q = fresh_int("q")
        cs = [z3.And(l.e >= 2, l.e <= H) for l in ls] + [ls[i].e >= ls[i + 1].e for i in range(m - 1)] + [q.e >= 0, q.e <= H // 2]
        eng.assume(z3.And(*cs))
        bound = lbq(W, H, q, list(ls))
        eng.pending = []
        b = lift(bound)
        # exists packing into bound-1 bins?
        vs = []
        ex = [b >= 2]
        for i, l in enumerate(ls):
            bi, xi, yi = z3.Int(f"b{i}"), z3.Int(f"x{i}"), z3.Int(f"y{i}")
            ex += [bi >= 1, bi <= b - 1, xi >= 0, yi >= 0, xi + l.e <= W, yi + l.e <= H]
            vs.append((bi, xi, yi, l.e))
        for i in range(m):
            for j in range(i):
                bi, xi, yi, li = vs[i]
                bj, xj, yj, lj = vs[j]
                ex.append(z3.Or(bi != bj, xi + li <= xj, xj + lj <= xi, yi + li <= yj, yj + lj <= yi))
        r = backend.solve(list(eng.s.assertions()), z3.And(*ex), timeout_s=120, label=f"lbq W={W} H={H} m={m}", backends=("lia",))
        state["q"].append(r)
        if r.status == "unknown":
            raise core.Abort("unknown")
        if r.status == "sat":
            state["bad"] = r.model
            raise core.Abort("violated-ext")
        return "path"
    eng = Engine(timeout_ms=60000, deadline=time.time() + timeout_s)
    ok = eng.explore(h)
    q, st = util.qstats(state["q"])
    common = dict(paths=eng.paths, queries=dict(sat=q["sat"], unsat=q["unsat"] + eng.n_unsat, unknown=q["unknown"] + eng.unknown), solver_s=round(st + eng.t_solver, 2),
                  vacuity=dict(outcomes=eng.outcomes))
    if state["bad"] is not None:
        md = state["bad"]
        ls = [int(md.get(f"l{i}", 2)) for i in range(m)]
        rows = [[i, int(md.get(f"b{i}", 1)), int(md.get(f"x{i}", 0)), int(md.get(f"y{i}", 0)), int(md.get(f"x{i}", 0)) + ls[i], int(md.get(f"y{i}", 0)) + ls[i]] for i in range(m)]
        nb = max(r[1] for r in rows)
        w = dict(W=W, H=H, items=[[l, l] for l in ls], clause="not_above_feasible", packing=rows, bins=nb, q=md.get("q"))
        bad, info = replay(w)
        w["observed"] = info
        if bad:
            return violated("not_above_feasible", "binpacking2d/instance.py:__lb_q", f"L(q) bound too large: bin {W}x{H} squares {ls} q={md.get('q')}: packing into {nb} bins {rows}, {info}", w, validated=1, **common)
        return inconclusive(f"__lb_q path bound exceeds a feasible packing for squares {ls}, q={md.get('q')} but the instance-level bound does not: {info}", **common)
    if not ok or not eng.outcomes.get("path"):
        return inconclusive(f"not conclusive {eng.stats()}", **common)
    return held(summary=f"__lb_q symbolic: bin {W}x{H}, {m} squares, all q: {eng.paths} paths, no packing into bound-1 bins",
                sample=dict(bin=[W, H], squares=m, paths=eng.paths), **common)


def jobs(tier):
    import os
    seed = int(os.environ.get("VERIF_SEED", "0") or 0)
    js = [Job("geo-arith", job_geo_arith, dict(vmax=60 if tier == "quick" else 1000), "at_least_area_bound", 600)]

    def bins_upto(b):
        return [(W, H) for W in range(1, b + 1) for H in range(1, b + 1)]
    # families: per bin one job group (parallel); both orientations of the bin are enumerated
    for (W, H) in bins_upto(6):
        js.append(Job(f"exh/W{W}H{H}/4items", job_family, dict(bins=[(W, H)], n_items=4, label=f"bin {W}x{H}, all 4-multisets"), "not_above_feasible", 900))
    for (W, H) in bins_upto(14):
        if max(W, H) > 5:
            js.append(Job(f"exh/W{W}H{H}/2items", job_family, dict(bins=[(W, H)], n_items=2, label=f"bin {W}x{H}, all pairs (both orientations)", both=True), "not_above_feasible", 900))
    for (W, H) in bins_upto(8):
        if max(W, H) > 5:
            js.append(Job(f"exh/W{W}H{H}/3items", job_family, dict(bins=[(W, H)], n_items=3, label=f"bin {W}x{H}, all triples (both orientations)", both=True), "not_above_feasible", 900))
    for (W, H) in [(w, h) for w in range(2, 11) for h in range(2, w + 1)] if tier == "quick" else [(w, h) for w in range(2, 17) for h in range(2, w + 1)]:
        for m in (2, 3) + ((4,) if (W <= 7 or (tier == "thorough" and W <= 10)) else ()) + ((5,) if tier == "thorough" and W <= 6 else ()):
            js.append(Job(f"lbq/W{W}H{H}/m{m}", job_lbq, dict(W=W, H=H, m=m), "not_above_feasible", 1700))
    if tier == "thorough":
        for (W, H) in bins_upto(6):
            if max(W, H) > 3:
                js.append(Job(f"exh/W{W}H{H}/5items", job_family, dict(bins=[(W, H)], n_items=5, label=f"bin {W}x{H}, all 5-multisets", time_budget=1500),
                              "not_above_feasible", 1800))
        for (W, H) in bins_upto(20):
            if max(W, H) > 14:
                js.append(Job(f"exh/W{W}H{H}/2items", job_family, dict(bins=[(W, H)], n_items=2, label=f"bin {W}x{H}, all pairs"), "not_above_feasible", 1800))
        for k in range(32):
            rnd = random.Random(seed * 1000 + k)
            bs = [(rnd.randint(2, 20), rnd.randint(2, 20)) for _ in range(40)]
            js.append(Job(f"random/{k}", job_family, dict(bins=bs, n_items=rnd.randint(3, 8), label=f"random bins <= 20, seed {seed}/{k}", sample=60,
                                                          seed=seed * 1000 + k, time_budget=800), "not_above_feasible", 1200))
    return js


def meta(tier):
    return dict(
        bounds=dict(family="exhaustive: bins W,H <= 6 with every 4-multiset of item shapes; W,H <= 8 with every triple; W,H <= 14 with every pair "
                           "(thorough: + W,H <= 6 with 5-multisets, W,H <= 20 pairs, seeded random instances up to 8 items, dims <= 20)",
                    packings="all placements x rotations x bin assignments into lb-1 bins (solver)",
                    lbq="__lb_q run on SYMBOLIC square lists (2-3 squares, thorough 4) and symbolic q for every bin W >= H with W <= 10 (thorough 16); 4 squares up to W <= 7 (thorough 10), 5 squares up to W <= 6 in thorough: sizes and placements symbolic in one query per path"),
        outside=["larger instances", "__cutsq on symbolic items; the published argument that CUTSQ + L(q) is valid for arbitrary items (checked end to end on the enumerated family only)"],
        assumptions=["the instance side of the quantifier is enumerated/sampled, said so; the packing side is decided by the solver",
                     "4- and 5-multisets are enumerated up to rotation of the items (w <= h); pairs and triples in both orientations"],
        stubs=["none: the real constructor runs concretely; packing existence is a plain z3 query with a per-bin area lemma"])
