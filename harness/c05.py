"""C05 - tour length equals the cyclic edge sum and respects instance bounds."""
from __future__ import annotations

import itertools
import random
import time

import z3

from symx import core, xform, util, backend
from symx.core import Engine, SymArray, SymInt, fresh_array, fresh_int, lift, mk, Abort, INT64
from symx.runner import Job, held, violated, inconclusive
from . import pack_common as P

PROP = "C05"
DMAX = 10 ** 12


def tsp_ctor():
    import numpy as np
    import moptipyapps.tsp.instance as ti
    ov = core.install_builtins(dict(check_int_range=P.s_check_int_range, int_range_to_dtype=P.s_int_range_to_dtype,
                                    _rt_super=P.rt_super_for(ti.Instance, "tsp")))
    return xform.transform(ti.Instance.__new__, overrides=ov), ti.Instance


def tour_methods():
    import moptipyapps.tsp.tour_length as tl
    ov = core.install_builtins()
    return {k: xform.transform(getattr(tl.TourLength, k), overrides=ov) for k in ("__init__", "evaluate", "lower_bound", "upper_bound")}, tl


def make_tsp(eng, n, symmetric=None, lower_arg=0, dmax=DMAX):
    """run the real constructor on a symbolic n x n matrix; rejected matrices end their path"""
    import numpy as np
    ctor, Instance = tsp_ctor()
    m = fresh_array("d", (n, n), dtype=INT64, masq=np.ndarray)
    cs = []
    for i in range(n):
        for j in range(n):
            cs.append(z3.And(lift(m[i, j]) >= 0, lift(m[i, j]) <= dmax))
    if symmetric is True:
        for i in range(n):
            for j in range(i):
                m[j, i] = m[i, j]
    eng.assume(z3.And(*cs))
    try:
        inst = ctor(Instance, "t", lower_arg, m)
    except (ValueError, TypeError):
        raise Abort("constructor rejects")
    inst.given = m
    return inst


def real_instance(D, lower=0):
    import numpy as np
    from moptipyapps.tsp.instance import Instance
    return Instance("t", lower, np.array(D, dtype=np.int64))


def replay(w):
    import numpy as np
    from moptipyapps.tsp.tour_length import TourLength
    D, x = w["D"], w["x"]
    n = len(D)
    try:
        inst = real_instance(D)
    except ValueError as e:
        return False, dict(note="constructor rejects: " + str(e)[:100])
    f = TourLength(inst)
    val = int(f.evaluate(np.array(x, dtype=np.int64)))
    exp = sum(D[x[k - 1]][x[k]] for k in range(n))
    sym = all(D[i][j] == D[j][i] for i in range(n) for j in range(n))
    info = dict(value=val, expected=exp, lower=int(f.lower_bound()), upper=int(f.upper_bound()), is_symmetric=bool(inst.is_symmetric),
                truly_symmetric=sym, dtype=str(inst.dtype), stored=[[int(v) for v in r] for r in inst])
    bad = (val != exp) or not (info["lower"] <= val <= info["upper"]) or (info["is_symmetric"] != sym) or (info["stored"] != [list(r) for r in D])
    return bad, info


def job_instance(n, symmetric, perm_mode, timeout_s=900):
    M, tl = tour_methods()
    state = {}

    def h(eng):
        inst = make_tsp(eng, n, symmetric)
        eng.flush()
        G = inst.given
        # stored matrix == given, fits dtype
        cs = []
        for i in range(n):
            for j in range(n):
                v = lift(inst[i, j])
                cs.append(z3.And(v == lift(G[i, j]), v >= inst.dtype.lo, v <= inst.dtype.hi))
        eng.oblige(z3.And(*cs), "stored matrix equals the given one and fits the chosen dtype", now=True)
        symm = z3.And(*[lift(G[i, j]) == lift(G[j, i]) for i in range(n) for j in range(i)])
        eng.oblige(core.bexpr(inst.is_symmetric) == symm, "is_symmetric <=> matrix symmetric", now=True)
        obj = M["__init__"]._shell.__new__(M["__init__"]._shell)
        M["__init__"](obj, inst)
        lo, hi = lift(M["lower_bound"](obj)), lift(M["upper_bound"](obj))
        if perm_mode == "symbolic":
            x = fresh_array("x", (n,), dtype=INT64)
            eng.assume(z3.And(z3.Distinct(*[lift(x[k]) for k in range(n)]), *[z3.And(lift(x[k]) >= 0, lift(x[k]) < n) for k in range(n)]))
            perms = [x]
        else:
            perms = [SymArray(list(p), (n,), name="x", dtype=INT64) for p in itertools.permutations(range(n))]
        for x in perms:
            val = lift(M["evaluate"](obj, x))
            eng.flush()
            xs = [x[k] for k in range(n)]
            exp = z3.Sum([lift(G.select(xs[k - 1], xs[k])) for k in range(n)])
            eng.oblige(val == exp, "tour length == cyclic edge sum", now=True)
            eng.oblige(z3.And(lo <= val, val <= hi), "lower <= tour length <= upper", now=True)
            eng.oblige(z3.And(val <= 2 ** 63 - 1, val >= 0), "accumulator fits int64", now=True)
        return "accepted"
    eng = Engine(timeout_ms=120000, deadline=time.time() + timeout_s)
    ok = eng.explore(h)
    common = dict(paths=eng.paths, queries=dict(sat=eng.n_sat, unsat=eng.n_unsat, unknown=eng.unknown), solver_s=round(eng.t_solver, 2),
                  vacuity=dict(outcomes=eng.outcomes, aborts=eng.aborts))
    if eng.violations:
        v = eng.violations[0]
        md = {d.name(): v.model[d].as_long() for d in v.model.decls() if z3.is_int_value(v.model[d])}
        D = [[md.get(f"d_{i * n + j}", 0) for j in range(n)] for i in range(n)]
        if symmetric:
            for i in range(n):
                for j in range(i):
                    D[j][i] = D[i][j]
        xs = [md.get(f"x_{k}", k) for k in range(n)]
        if sorted(xs) != list(range(n)):
            xs = list(range(n))
        cands = [xs] + ([list(p) for p in itertools.permutations(range(n))] if n <= 5 else [])
        for xc in cands:
            w = dict(D=D, x=xc, label=v.label)
            try:
                bad, info = replay(w)
            except Exception as ex:
                return inconclusive(f"replay raised {type(ex).__name__}: {ex}; {w}", **common)
            if bad:
                w["observed"] = info
                return violated("tour_length_and_instance", "tsp/instance.py + tsp/tour_length.py", f"{v.label}: D={D} x={xc} -> {info}", w, validated=1, **common)
        return inconclusive(f"model does not replay ({v.label}): D={D}", **common)
    if not ok or not eng.outcomes.get("accepted"):
        return inconclusive(f"exploration not conclusive {eng.stats()}", **common)
    return held(summary=f"n={n} symmetric={symmetric} perms={perm_mode}: {eng.paths} paths ({eng.outcomes.get('accepted')} accepted), entries 0..10^12",
                sample=dict(n=n, symmetric=symmetric, clauses=["stored==given & fits dtype", "is_symmetric iff symmetric", "length==edge sum", "bounds", "int64"]),
                **common)


def job_selftest(seed):
    import numpy as np
    import moptipyapps.tsp.tour_length as tl
    rnd = random.Random(seed)
    f = xform.transform(tl.tour_length)
    cnt = 0
    eng = Engine()
    core.ENG = eng
    for _ in range(150):
        n = rnd.randint(2, 7)
        D = [[0 if i == j else rnd.randint(1, 10 ** rnd.randint(1, 12)) for j in range(n)] for i in range(n)]
        x = list(range(n))
        rnd.shuffle(x)
        eng.pending = []
        a = f(SymArray([v for r in D for v in r], (n, n), name="d"), SymArray(x, (n,), name="x"))
        w = dict(D=D, x=x)
        bad, info = replay(w)
        cnt += 1
        if bad or a != info.get("value"):
            return inconclusive(f"self-test mismatch {w} {info} engine={a}")
    return held(validated=cnt, paths=cnt, queries={}, summary=f"self-test: {cnt} concrete tours: transformed source == compiled kernel == edge sum")


def jobs(tier):
    import os
    seed = int(os.environ.get("VERIF_SEED", "0") or 0)
    js = [Job("selftest", job_selftest, dict(seed=seed), "selftest", 600)]
    sizes = [2, 3, 4] + ([5, 6] if tier == "thorough" else [])
    for n in sizes:
        for sym in (None, True):
            js.append(Job(f"instance/n{n}/{'sym' if sym else 'any'}", job_instance,
                          dict(n=n, symmetric=sym, perm_mode="symbolic" if n <= 5 else "enumerated" if n <= 4 else "symbolic", timeout_s=900 if n <= 4 else 3000),
                          "tour_length_and_instance", 1000 if n <= 4 else 3300, weight=n))
    return js


def meta(tier):
    return dict(
        bounds=dict(cities="2..4 (thorough 6)", entries="symbolic 0..10^12, any diagonal (non-zero diagonal is rejected by the constructor)",
                    permutation="symbolic permutation of 0..n-1", lower_bound_argument=0),
        outside=["n > 6", "upper_bound_range_multiplier != 1 (TTP passes rounds*n; covered by the symbolic dtype model only for 1)"],
        assumptions=["matrices rejected by the real constructor end their path (legitimate outcome)",
                     "np.copyto(..., 'unsafe') stores fitting values unchanged and replaces non-fitting ones by an arbitrary value of the dtype"],
        stubs=["np.ndarray -> SymArray", "int_range_to_dtype symbolic model (validated per run)", "check_int_range re-implemented", "super().__new__ allocates a SymArray"])
