"""Executable reference model of the improved-bottom-left decoders, written from the module documentation
of moptipyapps.binpacking2d.encodings.ibl_encoding_1/2 (not from their code).

Documented rule: items are processed in order; a negative id means rotated by 90 degrees; an item that does
not fit the empty bin in the requested orientation is rotated; the item is dropped from the top-right corner,
moves DOWN as far as possible, then LEFT until blocked or until its right edge reaches the left end of an
item it rests on; downward moves take precedence; repeat until no move is possible.  If the item is then
inside the bin it stays; otherwise encoding 1 opens a new bin (and never returns to an old one), encoding 2
tries all open bins starting with the first and opens a new bin only if none accepts the item.  A new bin
receives the item at (0, 0).

Boxes are tuples (id, bin, left, bottom, right, top).  This file is executed by the same engine as the real
code (values may be symbolic); it uses only comparisons, min/max and arithmetic.
"""


def ref_descent(boxes, left, bottom, right, top):
    """how far the item can fall: down to the highest top among boxes that overlap it horizontally and are
    not above it, or to the floor"""
    floor = 0
    for (_, _, l0, b0, r0, t0) in boxes:
        if (r0 > left) and (l0 < right) and (b0 < top):
            floor = max(floor, t0)
    return bottom - floor


def ref_left(boxes, left, bottom, right, top):
    """how far the item can slide left: to the wall, to the nearest right edge of a box that overlaps it
    vertically on its left, or until its right edge reaches the left end of a box directly beneath it"""
    dist = left
    for (_, _, l0, b0, r0, t0) in boxes:
        if l0 >= right:
            continue
        if (r0 > left) and (l0 < right):
            if t0 == bottom:
                dist = min(dist, right - l0)
        elif (top > b0) and (bottom < t0):
            dist = min(dist, left - r0)
    return dist


def ref_place(boxes, w, h, bin_width, bin_height, fuel):
    """drop one item into a bin holding `boxes`; returns (left, bottom, right, top) after all moves"""
    left = bin_width - w
    bottom = bin_height
    right = bin_width
    top = bin_height + h
    for _ in range(fuel):
        d = ref_descent(boxes, left, bottom, right, top)
        if d > 0:
            bottom = bottom - d
            top = top - d
            continue
        s = ref_left(boxes, left, bottom, right, top)
        if s > 0:
            left = left - s
            right = right - s
            continue
        return left, bottom, right, top
    raise RuntimeError("reference model: fuel exhausted")


def ref_oriented(item_id, sizes, bin_width, bin_height):
    k = item_id if item_id > 0 else -item_id
    w, h = sizes[k - 1]
    if item_id < 0:
        w, h = h, w
    if (w > bin_width) or (h > bin_height):
        w, h = h, w
    return k, w, h


def ref_decode_1(x, sizes, bin_width, bin_height, fuel):
    rows = []
    bin_id = 1
    current = []
    for item_id in x:
        k, w, h = ref_oriented(item_id, sizes, bin_width, bin_height)
        left, bottom, right, top = ref_place(current, w, h, bin_width, bin_height, fuel)
        if (right > bin_width) or (top > bin_height):
            bin_id = bin_id + 1
            current = list()   # (a call: keeps this `if` a fork in the engine, lists of different length cannot be joined)
            left, bottom, right, top = 0, 0, w, h
        box = (k, bin_id, left, bottom, right, top)
        current.append(box)
        rows.append(box)
    return rows, bin_id


def ref_decode_2(x, sizes, bin_width, bin_height, fuel):
    rows = []
    bins = [[]]
    for item_id in x:
        k, w, h = ref_oriented(item_id, sizes, bin_width, bin_height)
        placed = False
        for b in range(len(bins)):
            left, bottom, right, top = ref_place(bins[b], w, h, bin_width, bin_height, fuel)
            if (right <= bin_width) and (top <= bin_height):
                box = (k, b + 1, left, bottom, right, top)
                placed = True
                break
        if not placed:
            bins.append([])
            box = (k, len(bins), 0, 0, w, h)
        bins[box[1] - 1].append(box)
        rows.append(box)
    return rows, len(bins)
