"""Shared encoding of the TTP kernels (count_errors, game_plan_length) and their declarative oracles."""
from __future__ import annotations

import random

import z3

from symx import core, xform, util
from symx.core import SymInt, SymArray, fresh_array, fresh_int, lift, mk, INT64, dtype_of
from symx.util import z3_abs, z3_max


def shipped_settings(n=4):
    """constraint settings of the shipped n-team instances (read from the working tree)"""
    from moptipyapps.ttp.instance import Instance
    out = {}
    for name in Instance.list_resources():
        if name.endswith(str(n)) and not name[:-len(str(n))][-1:].isdigit():
            i = Instance.from_resource(name)
            if i.n_cities != n:
                continue
            out[name] = (i.rounds, (i.home_streak_min, i.home_streak_max, i.away_streak_min, i.away_streak_max,
                                    i.separation_min, i.separation_max))
    return out


def plan_domain(Y, n, days, allow_selfplay=True):
    cs = []
    for d in range(days):
        for t in range(n):
            cs.append(z3.And(Y[d][t] >= -n, Y[d][t] <= n))
            if not allow_selfplay:
                cs.append(z3.And(Y[d][t] != t + 1, Y[d][t] != -(t + 1)))
    return cs


def settings_domain(S, n, rounds):
    hmin, hmax, amin, amax, smin, smax = S
    ll = rounds * n - 1
    return [hmin >= 1, hmin <= ll, hmax >= hmin, hmax <= ll, amin >= 1, amin <= ll, amax >= amin, amax <= ll,
            smin >= 0, smin <= ll, smax >= smin, smax <= ll]


def consistent(Y, n, days):
    cs = []
    for d in range(days):
        for t in range(n):
            for u in range(n):
                if u == t:
                    cs.append(z3.And(Y[d][t] != t + 1, Y[d][t] != -(t + 1)))
                    continue
                cs.append(z3.Implies(Y[d][t] == u + 1, Y[d][u] == -(t + 1)))
                cs.append(z3.Implies(Y[d][t] == -(u + 1), Y[d][u] == (t + 1)))
    return z3.And(*cs)


def feasible(Y, n, days, rounds, S):
    """declarative feasibility of a round-robin schedule (DESIGN C07 oracle)"""
    HM, HX, AM, AX, SM, SX = S
    cs = [consistent(Y, n, days)]
    for d in range(days):
        for t in range(n):
            cs.append(Y[d][t] != 0)
    for t in range(n):
        for u in range(t):
            htu = z3.Sum([z3.If(Y[d][t] == u + 1, 1, 0) for d in range(days)])
            hut = z3.Sum([z3.If(Y[d][u] == t + 1, 1, 0) for d in range(days)])
            cs.append(htu + hut == rounds)
            cs.append(z3.And(htu - hut <= 1, hut - htu <= 1))
            meet = [z3.Or(Y[d][t] == u + 1, Y[d][t] == -(u + 1)) for d in range(days)]
            for d1 in range(days):
                for d2 in range(d1 + 1, days):
                    nomid = z3.And(*[z3.Not(meet[k]) for k in range(d1 + 1, d2)]) if d2 > d1 + 1 else z3.BoolVal(True)
                    gap = d2 - d1 - 1
                    cs.append(z3.Implies(z3.And(meet[d1], meet[d2], nomid), z3.And(gap >= SM, gap <= SX)))
    for t in range(n):
        home = [Y[d][t] > 0 for d in range(days)]
        for d1 in range(days):
            for d2 in range(d1, days):
                ln = d2 - d1 + 1
                allh = z3.And(*[home[k] for k in range(d1, d2 + 1)])
                alla = z3.And(*[z3.Not(home[k]) for k in range(d1, d2 + 1)])
                cs.append(z3.Implies(allh, ln <= HX))
                cs.append(z3.Implies(alla, ln <= AX))
                if d2 < days - 1:
                    starts_h = home[d1] if d1 == 0 else z3.And(home[d1], z3.Not(home[d1 - 1]))
                    starts_a = z3.Not(home[d1]) if d1 == 0 else z3.And(z3.Not(home[d1]), home[d1 - 1])
                    cs.append(z3.Implies(z3.And(allh, starts_h, z3.Not(home[d2 + 1])), ln >= HM))
                    cs.append(z3.Implies(z3.And(alla, starts_a, home[d2 + 1]), ln >= AM))
    return z3.And(*cs)


def documented_count(Y, n, days, rounds, S):
    """per-rule error count of the docstring for mutually consistent plans (byes allowed)"""
    HM, HX, AM, AX, SM, SX = S
    total = []
    pos = lambda e: z3.If(e > 0, e, 0)
    for t in range(n):
        col = [Y[d][t] for d in range(days)]
        for d in range(days):
            total.append(z3.If(col[d] == 0, 1, 0))                      # rule 2: day without game
        for kind, isk, mn, mx in (("h", lambda v: v > 0, HM, HX), ("a", lambda v: v < 0, AM, AX)):
            k = [isk(v) for v in col]
            for d1 in range(days):
                for d2 in range(d1, days):
                    ln = d2 - d1 + 1
                    run = z3.And(*k[d1:d2 + 1])
                    left = z3.BoolVal(True) if d1 == 0 else z3.Not(k[d1 - 1])
                    right = z3.BoolVal(True) if d2 == days - 1 else z3.Not(k[d2 + 1])
                    e = pos(ln - mx)                                     # rules 4/6: per day beyond the maximum
                    if d2 < days - 1:
                        e = e + pos(mn - ln)                             # rules 3/5: ended too early
                    total.append(z3.If(z3.And(run, left, right), e, 0))
    for t in range(n):
        for u in range(t):
            meet = [z3.Or(Y[d][t] == u + 1, Y[d][t] == -(u + 1)) for d in range(days)]
            for d1 in range(days):
                for d2 in range(d1 + 1, days):
                    nomid = z3.And(*[z3.Not(meet[k]) for k in range(d1 + 1, d2)]) if d2 > d1 + 1 else z3.BoolVal(True)
                    gap = d2 - d1 - 1
                    total.append(z3.If(z3.And(meet[d1], meet[d2], nomid), pos(SM - gap) + pos(gap - SX), 0))   # rules 7/8
            htu = z3.Sum([z3.If(Y[d][t] == u + 1, 1, 0) for d in range(days)])
            hut = z3.Sum([z3.If(Y[d][u] == t + 1, 1, 0) for d in range(days)])
            total.append(z3_abs(htu + hut - rounds))                     # rule 10
            total.append(pos(z3_abs(htu - hut) - 1))                     # rule 9
    return z3.Sum(total)


_CE = {}


def sym_count_errors():
    xform.ACC_MERGE = True
    if "f" not in _CE:
        import moptipyapps.ttp.errors as er
        _CE["f"] = xform.transform(er.count_errors)
    return _CE["f"]


def encode_count_errors(n, rounds, settings=None, temp_dtype=None):
    """one merged symbolic run of the real count_errors.  settings: 6-tuple of ints or None (symbolic)."""
    days = (n - 1) * rounds
    ce = sym_count_errors()

    def h(eng):
        y = fresh_array("y", (days, n))
        if settings is None:
            S = [fresh_int(k) for k in ("hmin", "hmax", "amin", "amax", "smin", "smax")]
        else:
            S = list(settings)
        t1 = fresh_array("t1", (n * (n - 1) // 2,), dtype=temp_dtype)
        t2 = fresh_array("t2", (n, n), dtype=temp_dtype)
        res = ce(y, *S, t1, t2)
        return util.Box(y=y, S=[lift(s) for s in S], res=lift(res), t1=t1, t2=t2)
    eng, box = util.single_path(h)
    Y = [[lift(box.y[d, t]) for t in range(n)] for d in range(days)]
    box.Y = Y
    box.n, box.rounds, box.days = n, rounds, days
    box.cons = plan_domain(Y, n, days) + (settings_domain(box.S, n, rounds) if settings is None else [])
    box.collected = eng.collected
    box.inrange = util.obligations_formula(eng.collected, "index in range")
    box.fits = util.obligations_formula(eng.collected, "value fits dtype")
    box.paths = eng.paths
    return box


def plan_from_model(model, n, days):
    return util.arr_from_model(model, "y", (days, n), "int64")


def settings_from_model(model, settings):
    if settings is not None:
        return tuple(settings)
    return tuple(int(model.get(k, 1)) for k in ("hmin", "hmax", "amin", "amax", "smin", "smax"))


def real_count_errors(plan, S, n):
    import numpy as np
    import moptipyapps.ttp.errors as er
    return int(er.count_errors(np.array(plan, dtype=np.int64), *[int(s) for s in S],
                               np.empty(n * (n - 1) // 2, np.int64), np.empty((n, n), np.int64)))


def py_feasible(plan, n, rounds, S):
    """plain-python evaluation of the feasibility oracle (replay side)"""
    days = len(plan)
    HM, HX, AM, AX, SM, SX = S
    for d in range(days):
        for t in range(n):
            v = plan[d][t]
            if v == 0 or abs(v) == t + 1 or abs(v) > n:
                return False
            u = abs(v) - 1
            if plan[d][u] != (-(t + 1) if v > 0 else (t + 1)):
                return False
    for t in range(n):
        for u in range(t):
            htu = sum(1 for d in range(days) if plan[d][t] == u + 1)
            hut = sum(1 for d in range(days) if plan[d][u] == t + 1)
            if htu + hut != rounds or abs(htu - hut) > 1:
                return False
            md = [d for d in range(days) if abs(plan[d][t]) == u + 1]
            for a, b in zip(md, md[1:]):
                if not (SM <= b - a - 1 <= SX):
                    return False
    for t in range(n):
        runs = []
        for d in range(days):
            hm = plan[d][t] > 0
            if runs and runs[-1][0] == hm:
                runs[-1][1] += 1
            else:
                runs.append([hm, 1])
        for k, (hm, ln) in enumerate(runs):
            mn, mx = (HM, HX) if hm else (AM, AX)
            if ln > mx:
                return False
            if k < len(runs) - 1 and ln < mn:
                return False
    return True
