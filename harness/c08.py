"""C08 - TTP travel length matches the tournament model and penalises byes."""
from __future__ import annotations

import random
import time

import z3

from symx import backend, util, xform, core
from symx.core import SymArray, fresh_array, fresh_int, lift, mk, SymInt
from symx.runner import Job, held, violated, inconclusive
from . import ttp_common as T

PROP = "C08"
DMAX = 10 ** 6


def _kernels():
    xform.ACC_MERGE = True
    import moptipyapps.ttp.plan_length as pl
    from moptipyapps.ttp.instance import Instance
    gl = xform.transform(pl.game_plan_length)
    init = xform.transform(pl.GamePlanLength.__init__)
    ub = xform.transform(pl.GamePlanLength.upper_bound)
    lb = xform.transform(pl.GamePlanLength.lower_bound)
    return gl, init, ub, lb, Instance


def make_objective(init, Instance, D, n, rounds):
    """run the real GamePlanLength.__init__ on a symbolic instance"""
    D._masq = Instance
    D.attrs.update(n_cities=n, rounds=rounds)
    obj = init._shell.__new__(init._shell)
    init(obj, D)
    return obj


def sym_distances(n, dmax=DMAX, zero_diag=True):
    D = fresh_array("D", (n, n))
    cons = []
    for a in range(n):
        for b in range(n):
            if a == b and zero_diag:
                D[a, b] = 0
            else:
                cons.append(z3.And(D[a, b].e >= 0, D[a, b].e <= dmax))
    return D, cons


def spec_length(Y, Dm, n, days, pen):
    """declarative tournament walk: location after each day, defined recursively"""
    def dist(a, b):
        # D[a][b] for symbolic a, b in 0..n-1; no travel if a == b
        r = z3.IntVal(0)
        for i in range(n):
            for j in range(n):
                if i != j:
                    r = z3.If(z3.And(a == i, b == j), Dm[i][j], r)
        return r
    total = []
    for t in range(n):
        loc = z3.IntVal(t)
        for d in range(days):
            v = Y[d][t]
            nxt = z3.If(v < 0, -v - 1, z3.If(v > 0, z3.IntVal(t), loc))
            total.append(dist(loc, nxt))
            total.append(z3.If(v == 0, pen, 0))
            loc = nxt
        total.append(dist(loc, z3.IntVal(t)))
    return z3.Sum(total)


def py_spec_length(plan, D, n, pen):
    tot = 0
    for t in range(n):
        loc = t
        for row in plan:
            v = row[t]
            if v == 0:
                tot += pen
                continue
            nxt = (-v - 1) if v < 0 else t
            if nxt != loc:
                tot += D[loc][nxt]
            loc = nxt
        if loc != t:
            tot += D[loc][t]
    return tot


def real_length(plan, D, pen):
    import numpy as np
    import moptipyapps.ttp.plan_length as pl
    return int(pl.game_plan_length(np.array(plan, dtype=np.int64), np.array(D, dtype=np.int64), int(pen)))


def real_objective(D, n, rounds):
    """the real GamePlanLength on a real instance built from D"""
    import numpy as np
    from moptipyapps.ttp.instance import Instance
    from moptipyapps.ttp.plan_length import GamePlanLength
    inst = Instance("x", np.array(D, dtype=np.int64), [f"t{i}" for i in range(n)], rounds, 1, 3, 1, 3, 1, rounds * n - 1)
    return GamePlanLength(inst), inst


def replay(w):
    import numpy as np
    plan, D, n, rounds, clause = w["plan"], w["D"], w["n"], w["rounds"], w["clause"]
    obj, inst = real_objective(D, n, rounds)
    from moptipyapps.ttp.game_plan import GamePlan
    gp = GamePlan(inst)
    np.copyto(gp, np.array(plan), casting="unsafe")
    val = int(obj.evaluate(gp))
    pen = int(obj.bye_penalty)
    info = dict(real_value=val, bye_penalty=pen)
    if clause == "definition":
        exp = py_spec_length(plan, D, n, 2 * max(max(r) for r in D) + 1)
        info["expected"] = exp
        return val != exp, info
    if clause == "bounds":
        info["lower"], info["upper"] = int(obj.lower_bound()), int(obj.upper_bound())
        return not (info["lower"] <= val <= info["upper"]), info
    if clause == "bye_increases":
        d, t = w["pos"]
        if plan[d][t] == 0:
            return False, info
        gp2 = GamePlan(inst)
        p2 = [list(r) for r in plan]
        p2[d][t] = 0
        np.copyto(gp2, np.array(p2), casting="unsafe")
        v2 = int(obj.evaluate(gp2))
        info["with_bye"] = v2
        return not (v2 > val), info
    if clause.startswith("optimum"):
        S = w["settings"]
        feas = T.py_feasible(plan, n, rounds, S)
        errs = T.real_count_errors(plan, S, n)
        info.update(feasible=feas, errors=errs, optimum=w["optimum"])
        if clause == "optimum_lower":
            return feas and errs == 0 and val < w["optimum"], info
        return not (feas and errs == 0 and val == w["optimum"]), info   # witness must replay as attaining the optimum
    raise ValueError(clause)


def _encode(n, rounds, Dconst=None, dmax=DMAX):
    gl, init, ubf, lbf, Instance = _kernels()
    days = (n - 1) * rounds

    def h(eng):
        y = fresh_array("y", (days, n))
        if Dconst is None:
            D, cons = sym_distances(n, dmax)
        else:
            D, cons = core.const_array("D", Dconst), []
        obj = make_objective(init, Instance, D, n, rounds)
        pen = obj.bye_penalty
        val = gl(y, D, pen)
        return util.Box(y=y, D=D, cons=cons, pen=lift(pen), val=lift(val), ub=lift(ubf(obj)), lb=lift(lbf(obj)), obj=obj)
    eng, box = util.single_path(h)
    box.Y = [[lift(box.y[d, t]) for t in range(n)] for d in range(days)]
    box.Dm = [[lift(box.D[a, b]) for b in range(n)] for a in range(n)]
    box.cons = list(box.cons) + T.plan_domain(box.Y, n, days)
    box.inrange = util.obligations_formula(eng.collected, "index in range")
    box.days = days
    return box


def _witness(model, n, days, Dconst=None):
    plan = T.plan_from_model(model, n, days).tolist()
    if Dconst is None:
        D = util.arr_from_model(model, "D", (n, n)).tolist()
        for i in range(n):
            D[i][i] = 0
    else:
        D = [list(map(int, r)) for r in Dconst]
    return plan, D


def _fix_D(D):
    """a real instance needs a positive entry per row; the model may leave rows all zero"""
    return D


def job_definition(n, rounds, clause, timeout_s=300):
    box = _encode(n, rounds)
    days = box.days
    cons = box.cons + [box.inrange]
    if clause == "definition":
        goal = box.val != spec_length(box.Y, box.Dm, n, days, box.pen)
    else:
        goal = z3.Not(z3.And(box.val >= box.lb, box.val <= box.ub))
    r = backend.solve(cons, goal, timeout_s=timeout_s, label=f"{clause} n={n} r={rounds}")
    tw = backend.solve(cons, box.val >= 1, timeout_s=60, label="twin")
    q, st = util.qstats([r, tw])
    common = dict(paths=1, queries=q, solver_s=st, backend=repr(r), vacuity=dict(domain_sat=tw.status),
                  summary=f"{clause} n={n} rounds={rounds} distances 0..{DMAX} symbolic: {r.status} ({r.backend} {r.seconds:.1f}s)",
                  sample=dict(query=f"exists plan,distances with NOT({clause})", n=n, rounds=rounds, answer=r.status))
    if tw.status != "sat":
        return inconclusive("vacuity twin not sat", **common)
    if r.status == "unsat":
        return held(**common)
    if r.status == "unknown":
        return inconclusive("solver unknown " + r.detail, **common)
    plan, D = _witness(r.model, n, days)
    w = dict(plan=plan, D=D, n=n, rounds=rounds, clause=clause)
    try:
        bad, info = replay(w)
    except Exception as ex:
        return inconclusive(f"replay failed: {ex}; witness {w}", **common)
    w["observed"] = info
    if not bad:
        return inconclusive(f"model does not replay: {w}", **common)
    return violated(clause, "ttp/plan_length.py", f"{clause}: {w}", w, validated=1, **common)


def _step():
    import moptipyapps.ttp.plan_length as pl
    return xform.extract_loop_body(pl.game_plan_length, which=0)


def spec_team(Y, Dm, n, days, pen, t):
    def dist(a, b):
        r = z3.IntVal(0)
        for i in range(n):
            for j in range(n):
                if i != j:
                    r = z3.If(z3.And(a == i, b == j), Dm[i][j], r)
        return r
    total = []
    loc = z3.IntVal(t)
    for d in range(days):
        v = Y[d][t]
        nxt = z3.If(v < 0, -v - 1, z3.If(v > 0, z3.IntVal(t), loc))
        total.append(dist(loc, nxt))
        total.append(z3.If(v == 0, pen, 0))
        loc = nxt
    total.append(dist(loc, z3.IntVal(t)))
    return z3.Sum(total)


def _run_step(step, args, y, D, pen, team, days, n, L0):
    # arguments by role (names read from the source); every other local of the loop body is a temporary (written before read)
    import ast
    import moptipyapps.ttp.plan_length as pl
    fd, _ = xform.parse_fn(pl.game_plan_length)
    params = [a.arg for a in fd.args.args]
    b = xform.body_wo_doc(fd)
    outer = [x for x in b if isinstance(x, (ast.For, ast.While))][0]
    acc = [n_.id for n_ in ast.walk(b[-1]) if isinstance(n_, ast.Name) and n_.id != "int"][0]
    kw = {params[0]: y, params[1]: D, params[2]: pen, outer.target.id: team, acc: L0}
    R = roles()
    if R is not None:
        kw.update({R["days"]: days, R["teams"]: n})
    else:       # number of days / teams: any name the prologue derives from y.shape; the unpacking order is (days, teams)
        for st in b:
            if isinstance(st, ast.Assign) and isinstance(st.targets[0], ast.Tuple) and "shape" in ast.unparse(st.value):
                kw.update({st.targets[0].elts[0].id: days, st.targets[0].elts[1].id: n})
    out = step(**{a: kw.get(a, 0) for a in args})
    return out[acc]


def job_team_step(n, rounds, clause, timeout_s=300, dmax=DMAX):
    """inductive step over the team loop: one iteration of the real loop body adds exactly the
    walk of that team (definition) / a value in [0, days*penalty] (bounds) to an arbitrary running total"""
    gl, init, ubf, lbf, Instance = _kernels()
    step, args = _step()
    days = (n - 1) * rounds
    results = []
    for team in range(n):
        def h(eng):
            y = fresh_array("y", (days, n))
            D, cons = sym_distances(n, dmax)
            obj = make_objective(init, Instance, D, n, rounds)
            pen = obj.bye_penalty
            L0 = fresh_int("L0")
            L1 = _run_step(step, args, y, D, pen, team, days, n, L0)
            return util.Box(y=y, D=D, cons=cons, pen=lift(pen), inc=z3.simplify(lift(L1) - L0.e, som=True),
                            ub=lift(ubf(obj)), lb=lift(lbf(obj)))
        eng, box = util.single_path(h)
        Y = [[lift(box.y[d, t]) for t in range(n)] for d in range(days)]
        Dm = [[lift(box.D[a, b]) for b in range(n)] for a in range(n)]
        cons = box.cons + T.plan_domain(Y, n, days) + [util.obligations_formula(eng.collected, "index in range")]
        if clause == "definition":
            goal = box.inc != spec_team(Y, Dm, n, days, box.pen, team)
        else:
            # per-team share of the declared bounds: lb/n <= inc <= ub/n  (n*inc within [lb, ub])
            goal = z3.Not(z3.And(n * box.inc >= box.lb, n * box.inc <= box.ub, box.lb <= 0))
        r = backend.solve(cons, goal, timeout_s=timeout_s, label=f"team-step {clause} n={n} r={rounds} team={team}")
        results.append(r)
        if r.status != "unsat":
            q, st = util.qstats(results)
            common = dict(paths=len(results), queries=q, solver_s=st)
            if r.status == "unknown":
                return inconclusive(f"unknown at team {team}: {r.detail}", **common)
            plan, D = _witness(r.model, n, days)
            w = dict(plan=plan, D=D, n=n, rounds=rounds, clause=clause, team=team)
            try:
                bad, info = replay(w)
            except Exception as ex:
                return inconclusive(f"replay failed: {ex}; {w}", **common)
            w["observed"] = info
            if not bad and clause == "definition":
                # the step started from an arbitrary running total; the whole run may mask a per-team error only
                # if another team compensates, which the model does not constrain: zero the other columns' effect
                return inconclusive(f"step counterexample does not replay through the whole kernel: {w}", **common)
            if not bad:
                return inconclusive(f"model does not replay: {w}", **common)
            return violated(clause, "ttp/plan_length.py", f"{clause} (team step, team {team}): {w}", w, validated=1, **common)
    q, st = util.qstats(results)
    return held(paths=len(results), queries=q, solver_s=st,
                summary=f"team-step {clause} n={n} rounds={rounds}: {n} steps unsat",
                sample=dict(query=f"one iteration of the team loop from an arbitrary running total: NOT({clause})", n=n, rounds=rounds,
                            answer="unsat for every team"))


_ROLES = {}


def roles():
    """The kernel's loop structure and the NAMES of its variables by role (plan, distances, penalty, team, day, number of days /
    teams, running total, current location), inferred from the working tree's source and two concrete probe runs - so that renaming
    locals, `for` <-> `while`, or moving code into helper kernels does not matter.  None if the structure is not
    prologue; for team: (prefix; day loop; suffix); return total."""
    if "r" in _ROLES:
        return _ROLES["r"]
    _ROLES["r"] = None
    import ast
    import numpy as np
    import moptipyapps.ttp.plan_length as pl
    f = pl.game_plan_length
    fd, _ = xform.parse_fn(f)
    params = [a.arg for a in fd.args.args]
    b = xform.body_wo_doc(fd)
    loops = [i for i, x in enumerate(b) if isinstance(x, (ast.For, ast.While))]
    if len(params) != 3 or len(loops) != 1 or loops[0] != len(b) - 2 or not isinstance(b[-1], ast.Return):
        return None
    outer = b[-2]
    if not (isinstance(outer, ast.For) and isinstance(outer.target, ast.Name) and not outer.orelse):
        return None
    inner_ix = [i for i, x in enumerate(outer.body) if isinstance(x, (ast.For, ast.While))]
    if len(inner_ix) != 1 or outer.body[inner_ix[0]].orelse:
        return None
    ii = inner_ix[0]
    inner = outer.body[ii]
    ret_names = [n.id for n in ast.walk(b[-1]) if isinstance(n, ast.Name) and n.id not in ("int",)]
    if len(ret_names) != 1:
        return None
    r = dict(y=params[0], distances=params[1], bye_penalty=params[2], team=outer.target.id, acc=ret_names[0], inner_is_for=isinstance(inner, ast.For))
    blocks = dict(
        prologue=xform.extract_block(f, lambda d: xform.body_wo_doc(d)[:-2], name="prologue"),
        prefix=xform.extract_block(f, lambda d: xform.body_wo_doc(d)[-2].body[:ii], name="prefix"),
        day=xform.extract_block(f, lambda d: xform.body_wo_doc(d)[-2].body[ii].body, name="day"),
        suffix=xform.extract_block(f, lambda d: xform.body_wo_doc(d)[-2].body[ii + 1:], name="suffix"),
        epilogue=xform.extract_block(f, lambda d: xform.body_wo_doc(d)[-1:], name="epilogue"))
    # probe 1: the prologue on a 5 x 3 plan tells which locals hold the number of days / teams
    from symx.core import Engine, const_array
    got = {}

    def probe(eng):
        yy = const_array("py", np.zeros((5, 3), dtype=np.int64))
        dd = const_array("pd", np.zeros((3, 3), dtype=np.int64))
        got["pro"] = xform.call_block(blocks["prologue"], **{r["y"]: yy, r["distances"]: dd, r["bye_penalty"]: 7})
        base = {r["y"]: yy, r["distances"]: dd, r["bye_penalty"]: 7, r["team"]: 2}
        base.update({k: v for k, v in got["pro"].items() if v is not None})
        got["pre"] = xform.call_block(blocks["prefix"], **base)
    try:
        Engine(timeout_ms=10000).explore(probe)
    except Exception:
        return None
    pro, pre = got.get("pro") or {}, got.get("pre") or {}
    days_n = [k for k, v in pro.items() if isinstance(v, int) and v == 5]
    teams_n = [k for k, v in pro.items() if isinstance(v, int) and v == 3]
    loc_n = [k for k, v in pre.items() if isinstance(v, int) and v == 2 and k != r["team"]]
    if len(days_n) != 1 or len(teams_n) != 1 or len(loc_n) != 1 or pro.get(r["acc"]) != 0:
        return None
    r.update(days=days_n[0], teams=teams_n[0], loc=loc_n[0])
    if r["inner_is_for"]:
        if not isinstance(inner.target, ast.Name):
            return None
        r["day"] = inner.target.id
    else:
        t = inner.test
        if not (isinstance(t, ast.Compare) and len(t.ops) == 1 and isinstance(t.left, ast.Name) and isinstance(t.comparators[0], ast.Name)):
            return None
        names = {t.left.id, t.comparators[0].id}
        if r["days"] not in names or len(names) != 2:
            return None
        r["day"] = (names - {r["days"]}).pop()
    r["blocks"] = blocks
    _ROLES["r"] = r
    return r


def _kw(r, **by_role):
    """keyword arguments for a block: role -> the kernel's own variable name"""
    return {r[k]: v for k, v in by_role.items()}


def _fallback_team_steps(n, rounds):
    """the kernel does not have the prologue / team loop (prefix, day loop, suffix) / return shape: decide the same clauses
    by the coarser induction over the team loop only (one whole team walk per query)"""
    r1 = job_team_step(n, rounds, "definition", timeout_s=600)
    if r1.get("status") != "held":
        return r1
    r2 = job_team_step(n, rounds, "bounds", timeout_s=600)
    if r2.get("status") != "held":
        return r2
    r2["summary"] = "FALLBACK (kernel structure not recognised by the per-day decomposition): team-loop induction, definition and bounds: " + str(r2.get("summary"))
    return r2


def job_compositional(n, rounds, timeout_s=120):
    """Definition and bounds by induction over the kernel's own loop structure.  Every piece of the real
    source is run from an arbitrary state constrained only by the invariant
        Inv(day d of team t): 0 <= loc < n,  0 <= Lt <= d*pen - (loc != t ? maxD+1 : 0)
    (Lt = what team t has added so far) and must (a) add exactly the step of the declarative walk and
    (b) re-establish Inv."""
    from symx.core import Engine
    gl, init, ubf, lbf, Instance = _kernels()
    R = roles()
    if R is None:
        return _fallback_team_steps(n, rounds)
    bl = R["blocks"]
    days = (n - 1) * rounds
    results = []
    failures = []

    def setup():
        y = fresh_array("y", (days, n)); y.readonly = True
        D, cons = sym_distances(n); D.readonly = True
        obj = make_objective(init, Instance, D, n, rounds)
        pen = obj.bye_penalty
        Y = [[lift(y[d, t]) for t in range(n)] for d in range(days)]
        cons = cons + T.plan_domain(Y, n, days)
        M = z3.Int("M")
        cons += [M >= 0] + [lift(D[a, b]) <= M for a in range(n) for b in range(n)] + [
            z3.Or(*[lift(D[a, b]) == M for a in range(n) for b in range(n)])]
        return y, D, obj, pen, cons, M

    def sel_y(y, day, team):
        return lift(y.select(mk(day) if z3.is_expr(day) else day, mk(team) if z3.is_expr(team) else team))

    def dist(D, a, b):
        r = z3.IntVal(0)
        for i in range(n):
            for j in range(n):
                if i != j:
                    r = z3.If(z3.And(a == i, b == j), lift(D[i, j]), r)
        return r

    def check(name, fn):
        eng = Engine(timeout_ms=timeout_s * 1000)
        ok = eng.explore(fn)
        results.append(eng)
        if eng.violations:
            v = eng.violations[0]
            failures.append((name, v.label, {d.name(): str(v.model[d]) for d in v.model.decls()}))
        elif not ok or eng.completed == 0:
            failures.append((name, "inconclusive", eng.stats()))

    # 1. prologue
    def p1(eng):
        y, D, obj, pen, cons, M = setup()
        eng.assume(z3.And(*cons))
        out = xform.call_block(bl["prologue"], **_kw(R, y=y, distances=D, bye_penalty=pen))
        eng.oblige(z3.And(lift(out[R["days"]]) == days, lift(out[R["teams"]]) == n, lift(out[R["acc"]]) == 0), "prologue: days, teams, length=0", now=True)
    check("prologue", p1)

    # 2. prefix: start at home
    def p2(eng):
        y, D, obj, pen, cons, M = setup()
        team = fresh_int("team")
        eng.assume(z3.And(*cons, team.e >= 0, team.e < n))
        out = xform.call_block(bl["prefix"], **_kw(R, y=y, distances=D, bye_penalty=pen, team=team, teams=n, days=days,
                                                   acc=fresh_int("L0"), loc=fresh_int("cl"), day=0))
        eng.oblige(lift(out[R["loc"]]) == team.e, "prefix: team starts at home", now=True)
        if out.get(R["acc"]) is not None:
            eng.oblige(lift(out[R["acc"]]) == z3.Int("L0"), "prefix: length unchanged", now=True)
    check("prefix", p2)

    # 3. day body
    def p3(eng):
        y, D, obj, pen, cons, M = setup()
        team, day, loc, L0, Lt = fresh_int("team"), fresh_int("day"), fresh_int("loc"), fresh_int("L0"), fresh_int("Lt")
        penz = lift(pen)
        inv = z3.And(loc.e >= 0, loc.e < n, Lt.e >= 0, Lt.e <= day.e * penz - z3.If(loc.e != team.e, M + 1, 0))
        eng.assume(z3.And(*cons, team.e >= 0, team.e < n, day.e >= 0, day.e < days, inv, penz == 2 * M + 1))
        out = xform.call_block(bl["day"], **_kw(R, y=y, distances=D, bye_penalty=pen, team=team, teams=n, days=days,
                                                acc=L0, loc=loc, day=day))
        eng.flush()
        v = sel_y(y, day.e, team.e)
        nxt = z3.If(v < 0, -v - 1, z3.If(v > 0, team.e, loc.e))
        inc = z3.If(v == 0, penz, dist(D, loc.e, nxt))
        L1 = lift(out[R["acc"]]) if out.get(R["acc"]) is not None else L0.e
        loc1 = lift(out[R["loc"]]) if out.get(R["loc"]) is not None else loc.e
        if not R["inner_is_for"]:
            eng.oblige(lift(out[R["day"]]) == day.e + 1, "day step advances the day counter by one", now=True)
        eng.oblige(L1 - L0.e == inc, "day step adds the walk step", now=True)
        eng.oblige(loc1 == nxt, "day step moves to the venue / stays", now=True)
        Lt1 = Lt.e + inc
        eng.oblige(z3.And(loc1 >= 0, loc1 < n, Lt1 >= 0, Lt1 <= (day.e + 1) * penz - z3.If(loc1 != team.e, M + 1, 0)),
                   "day step re-establishes the invariant", now=True)
    check("day", p3)

    # 4. suffix: return home
    def p4(eng):
        y, D, obj, pen, cons, M = setup()
        team, loc, L0, Lt = fresh_int("team"), fresh_int("loc"), fresh_int("L0"), fresh_int("Lt")
        penz = lift(pen)
        inv = z3.And(loc.e >= 0, loc.e < n, Lt.e >= 0, Lt.e <= days * penz - z3.If(loc.e != team.e, M + 1, 0))
        eng.assume(z3.And(*cons, team.e >= 0, team.e < n, inv, penz == 2 * M + 1))
        out = xform.call_block(bl["suffix"], **_kw(R, y=y, distances=D, bye_penalty=pen, team=team, teams=n, days=days,
                                                   acc=L0, loc=loc, day=days - 1 if R["inner_is_for"] else days))
        eng.flush()
        inc = dist(D, loc.e, team.e)
        L1 = lift(out[R["acc"]]) if out.get(R["acc"]) is not None else L0.e
        eng.oblige(L1 - L0.e == inc, "suffix adds the trip home", now=True)
        eng.oblige(z3.And(Lt.e + inc >= 0, Lt.e + inc <= days * penz), "team total within [0, days*penalty]", now=True)
        eng.oblige(z3.And(lift(lbf(obj)) <= 0, n * days * penz <= lift(ubf(obj))), "n team totals fit the declared bounds", now=True)
    check("suffix", p4)

    # 5. epilogue
    def p5(eng):
        y, D, obj, pen, cons, M = setup()
        L = fresh_int("L")
        eng.assume(z3.And(*cons))
        out = xform.call_block(bl["epilogue"], **_kw(R, acc=L, y=y, distances=D, bye_penalty=pen, days=days, teams=n))
        eng.oblige(lift(out["_ret_"]) == L.e, "returns the accumulated length", now=True)
    check("epilogue", p5)

    paths = sum(e.paths for e in results)
    q = dict(unsat=sum(e.n_unsat for e in results), sat=sum(e.n_sat for e in results), unknown=sum(e.unknown for e in results))
    st = round(sum(e.t_solver for e in results), 2)
    common = dict(paths=paths, queries=q, solver_s=st,
                  sample=dict(pieces={k: v._src for k, v in bl.items()}, roles={k: v for k, v in R.items() if k != "blocks"}, n=n, rounds=rounds),
                  summary=f"compositional n={n} rounds={rounds}: 5 pieces, {paths} paths, failures={len(failures)}")
    if failures:
        name, label, model = failures[0]
        if label == "inconclusive":
            return inconclusive(f"piece {name}: {model}", **common)
        # build a whole-kernel witness from the step model and replay it through the public objective
        try:
            plan = [[int(model.get(f"y_{d * n + t}", "0")) for t in range(n)] for d in range(days)]
            D = [[0 if a == b else max(0, int(model.get(f"D_{a * n + b}", "0"))) for b in range(n)] for a in range(n)]
        except ValueError:
            return inconclusive(f"piece {name} violated ({label}) but the model is not numeric: {model}", **common)
        for clause in ("definition", "bounds"):
            w = dict(plan=plan, D=D, n=n, rounds=rounds, clause=clause, piece=name, label=label)
            try:
                bad, info = replay(w)
            except Exception as ex:
                continue
            if bad:
                w["observed"] = info
                return violated(clause, "ttp/plan_length.py", f"{clause}: piece '{name}' ({label}) -> {w}", w, validated=1, **common)
        # the step model starts in the middle of a run; search a whole-run witness with concrete small plans
        wr = _search_whole(n, rounds, plan, D)
        if wr is not None:
            return violated(wr["clause"], "ttp/plan_length.py", f"{wr['clause']}: piece '{name}' ({label}) -> {wr}", wr, validated=1, **common)
        return inconclusive(f"piece {name} violates '{label}' from an intermediate state, but no whole-run witness reproduces: {model}", **common)
    return held(**common)


def _search_whole(n, rounds, plan, D):
    """a step counterexample starts mid-run; turn it into a run of the public objective by trying the model's
    plan with each row moved to the front / distances made positive (bounded, deterministic)"""
    import itertools
    days = len(plan)
    cands = []
    Dp = [[(v if a == b else max(v, 1)) for b, v in enumerate(r)] for a, r in enumerate(D)]
    for DD in (D, Dp, [[0 if a == b else (a * n + b + 1) for b in range(n)] for a in range(n)]):
        cands.append((plan, DD))
        for k in range(days):
            cands.append((plan[k:] + plan[:k], DD))
        for v in range(-n, n + 1):
            for t in range(n):
                p2 = [list(r) for r in plan]
                for d in range(days):
                    p2[d][t] = v
                cands.append((p2, DD))
    for pl_, DD in cands:
        for clause in ("definition", "bounds"):
            w = dict(plan=pl_, D=DD, n=n, rounds=rounds, clause=clause)
            try:
                bad, info = replay(w)
            except Exception:
                continue
            if bad:
                w["observed"] = info
                return w
    # solver search over all plans of a (smaller) league with a concrete asymmetric matrix
    for (n2, r2) in ((n, rounds), (4, 1), (2, 2), (2, 3)):
        if n2 > 4 or (n2 - 1) * r2 > 6:
            continue
        Dc = [[0 if a == b else 1 + 5 * a + 3 * b + a * b for b in range(n2)] for a in range(n2)]
        try:
            box = _encode(n2, r2, Dconst=Dc)
        except Exception:
            continue
        days2 = box.days
        for clause, goal in (("definition", box.val != spec_length(box.Y, box.Dm, n2, days2, box.pen)),
                             ("bounds", z3.Not(z3.And(box.val >= box.lb, box.val <= box.ub)))):
            r = backend.solve(box.cons + [box.inrange], goal, timeout_s=120, label=f"whole-run witness search {clause}")
            if r.status == "sat":
                plan2, D2 = _witness(r.model, n2, days2, Dc)
                w = dict(plan=plan2, D=D2, n=n2, rounds=r2, clause=clause)
                try:
                    bad, info = replay(w)
                except Exception:
                    continue
                if bad:
                    w["observed"] = info
                    return w
    return None


def job_bye(n, rounds, positions, timeout_s=120, whole=False):
    """plan and distances symbolic, the position concrete: replacing the game by a bye increases the value"""
    gl, init, ubf, lbf, Instance = _kernels()
    step, args = _step()
    days = (n - 1) * rounds
    results = []
    for (pd, pt) in positions:
        def h(eng):
            y = fresh_array("y", (days, n))
            D, cons = sym_distances(n)
            obj = make_objective(init, Instance, D, n, rounds)
            pen = obj.bye_penalty
            cells = list(y.cells)
            cells[pd * n + pt] = 0
            y2 = SymArray(cells, (days, n), name="y2")
            if whole:
                l1 = gl(y, D, pen)
                l2 = gl(y2, D, pen)
            else:
                # only team pt's column differs, and the team loop reads only its own column (checked by
                # the definition step: the increment equals a function of that column); compare that team's step
                l1 = _run_step(step, args, y, D, pen, pt, days, n, 0)
                l2 = _run_step(step, args, y2, D, pen, pt, days, n, 0)
            return util.Box(y=y, D=D, cons=cons, l1=lift(l1), l2=lift(l2))
        eng, box = util.single_path(h)
        Y = [[lift(box.y[d, t]) for t in range(n)] for d in range(days)]
        cons = box.cons + T.plan_domain(Y, n, days) + [util.obligations_formula(eng.collected, "index in range"), Y[pd][pt] != 0]
        diff = z3.simplify(box.l2 - box.l1, som=True)
        r = backend.solve(cons, z3.Not(diff > 0), timeout_s=timeout_s, label=f"bye {pd},{pt}")
        results.append(r)
        if r.status != "unsat":
            q, st = util.qstats(results)
            common = dict(paths=len(results), queries=q, solver_s=st)
            if r.status == "unknown":
                return inconclusive(f"unknown at position {(pd, pt)}: {r.detail}", **common)
            plan, D = _witness(r.model, n, days)
            w = dict(plan=plan, D=D, n=n, rounds=rounds, clause="bye_increases", pos=[pd, pt])
            try:
                bad, info = replay(w)
            except Exception as ex:
                return inconclusive(f"replay failed: {ex}; {w}", **common)
            w["observed"] = info
            if not bad:
                return inconclusive(f"model does not replay: {w}", **common)
            return violated("bye_increases", "ttp/plan_length.py", f"bye does not increase length: {w}", w, validated=1, **common)
    q, st = util.qstats(results)
    return held(paths=len(results), queries=q, solver_s=st,
                summary=f"bye clause n={n} rounds={rounds} positions {positions[0]}..{positions[-1]}: all unsat",
                sample=dict(query="exists plan, distances: plan with game at (day,team) replaced by bye is not strictly longer",
                            positions=positions, answer="unsat"))


def job_optimum(name, which, timeout_s=600):
    from moptipyapps.ttp.instance import Instance
    import numpy as np
    inst = Instance.from_resource(name)
    n, rounds = inst.n_cities, inst.rounds
    S = (inst.home_streak_min, inst.home_streak_max, inst.away_streak_min, inst.away_streak_max,
         inst.separation_min, inst.separation_max)
    lo, hi = inst.get_optimal_plan_length_bounds()
    Dconst = np.array(inst, dtype=np.int64).tolist()
    box = _encode(n, rounds, Dconst=Dconst)
    days = box.days
    feas = T.feasible(box.Y, n, days, rounds, [z3.IntVal(v) for v in S])
    ce = T.encode_count_errors(n, rounds, S)
    # tie the two encodings to the same plan variables (both use y_k)
    cons = box.cons + [feas, ce.res == 0]
    if which == "lower":
        goal = box.val < lo
    else:
        goal = box.val == hi
    r = backend.solve(cons, goal, timeout_s=timeout_s, label=f"optimum {which} {name}")
    q, st = util.qstats([r])
    common = dict(paths=2, queries=q, solver_s=st, backend=repr(r),
                  summary=f"{name}: published optimum [{lo},{hi}], {which}: {r.status} ({r.backend} {r.seconds:.1f}s)",
                  sample=dict(instance=name, optimum=[lo, hi], query=("exists error-free plan shorter than optimum" if which == "lower"
                                                                      else "exists error-free plan of optimum length"), answer=r.status))
    if r.status == "unknown":
        return inconclusive("solver unknown " + r.detail, **common)
    if which == "lower":
        if r.status == "unsat":
            return held(**common)
        plan, D = _witness(r.model, n, days, Dconst)
        w = dict(plan=plan, D=D, n=n, rounds=rounds, clause="optimum_lower", settings=list(S), optimum=lo, instance=name)
        bad, info = replay(w)
        w["observed"] = info
        if not bad:
            return inconclusive(f"model does not replay: {w}", **common)
        return violated("optimum_lower", f"ttp/instance.py:_OPT_DISTANCE_BOUNDS[{name}]",
                        f"error-free plan shorter than the published optimum of {name}: {w}", w, validated=1, **common)
    if r.status == "unsat":
        w = dict(instance=name, optimum=hi, clause="optimum_attained")
        return violated("optimum_attained", f"ttp/instance.py:_OPT_DISTANCE_BOUNDS[{name}]",
                        f"no error-free plan of {name} has the published optimum length {hi} (solver: unsat over all plans)", w,
                        **common) if False else inconclusive(
            f"no error-free plan attains the published optimum {hi} of {name} (unsat over all plans); nothing to replay", **common)
    plan, D = _witness(r.model, n, days, Dconst)
    w = dict(plan=plan, D=D, n=n, rounds=rounds, clause="optimum_attained", settings=list(S), optimum=hi, instance=name)
    bad, info = replay(w)
    if bad:
        return inconclusive(f"optimum witness does not replay: {w} {info}", **common)
    common["sample"]["witness_plan"] = plan
    return held(validated=1, **common)


def job_selftest(seed):
    from symx.core import Engine
    gl, init, ubf, lbf, Instance = _kernels()
    rnd = random.Random(seed)
    eng = Engine()
    core.ENG = eng
    cnt = bad = 0
    for (n, rounds, c) in ((2, 2, 40), (4, 2, 120), (6, 1, 60), (4, 3, 40)):
        days = (n - 1) * rounds
        for _ in range(c):
            plan = [[rnd.randint(-n, n) for _ in range(n)] for _ in range(days)]
            D = [[0 if a == b else rnd.randint(0, 50) for b in range(n)] for a in range(n)]
            pen = 2 * max(max(r) for r in D) + 1
            eng.pending = []
            a = gl(SymArray([v for r in plan for v in r], (days, n), name="y"), SymArray([v for r in D for v in r], (n, n), name="D"), pen)
            b = real_length(plan, D, pen)
            c_ = py_spec_length(plan, D, n, pen)
            cnt += 1
            if not (a == b == c_):
                bad += 1
    if bad:
        return inconclusive(f"self-test: {bad}/{cnt} differ")
    return held(validated=cnt, paths=cnt, queries={}, summary=f"self-test {cnt} concrete plans: transformed source == compiled kernel == walk model")


def jobs(tier):
    import os
    seed = int(os.environ.get("VERIF_SEED", "0") or 0)
    js = [Job("selftest", job_selftest, dict(seed=seed), "selftest", 300)]
    for cl in ("definition", "bounds"):
        js.append(Job(f"whole/{cl}/n2/r2", job_definition, dict(n=2, rounds=2, clause=cl), cl, 300))
        js.append(Job(f"whole/{cl}/n2/r3", job_definition, dict(n=2, rounds=3, clause=cl), cl, 300))
    sizes = [(2, 2), (4, 1), (4, 2), (6, 2), (8, 2)] + ([(6, 1), (10, 2), (12, 2), (16, 2), (4, 3), (6, 4)] if tier == "thorough" else [])
    for n, r in sizes:
        js.append(Job(f"compositional/n{n}/r{r}", job_compositional, dict(n=n, rounds=r), "definition+bounds", 900, weight=4))
    for n, r in [(4, 1)] + ([(4, 2), (6, 1)] if tier == "thorough" else []):
        days = (n - 1) * r
        pos = [(d, t) for d in range(days) for t in range(n)]
        chunk = 2 if r > 1 or n > 4 else 4
        if n >= 6:
            chunk = 1       # six teams: the positions on the first days take 500-1000 s each under load (measured); one position per job, generous limits
        for k in range(0, len(pos), chunk):
            js.append(Job(f"bye/n{n}/r{r}/{k}", job_bye, dict(n=n, rounds=r, positions=pos[k:k + chunk], timeout_s=900 if n < 6 else 3000), "bye_increases",
                          2000 if n < 6 else 3300, weight=1 if n < 6 else 6))
    js.append(Job("bye-whole/n2/r2", job_bye, dict(n=2, rounds=2, positions=[(0, 0), (0, 1), (1, 0), (1, 1)], whole=True), "bye_increases", 300))
    names = sorted(T.shipped_settings(4))
    for nm in (names if tier == "thorough" else names):
        js.append(Job(f"optimum-lower/{nm}", job_optimum, dict(name=nm, which="lower", timeout_s=600), "optimum_lower", 800, weight=8))
        js.append(Job(f"optimum-attained/{nm}", job_optimum, dict(name=nm, which="attained", timeout_s=600), "optimum_attained", 800, weight=8))
    return js


def meta(tier):
    return dict(
        bounds=dict(teams="2, 4 (thorough: 6 for definition/bounds/bye, single round)", rounds="1, 2 (thorough: 3 at n=4)",
                    distances=f"symbolic 0..{DMAX}, zero diagonal", plan_entries="-n..n",
                    optimum="shipped four-team instances (enumerated: quick 3, thorough all), all plans symbolic"),
        outside=["optimum clause for n >= 6", "negative distances", "distances above 10^6", "n >= 8"],
        assumptions=["plan entries in -n..n", "distance matrix non-negative with zero diagonal (what ttp.Instance stores)",
                     "bye penalty and bounds are taken from the real GamePlanLength.__init__/upper_bound run on the symbolic matrix",
                     "optimum clause: error-free = real count_errors == 0 AND declarative feasibility oracle (C07 relates the two)"],
        stubs=["np.ndarray -> SymArray", "Instance -> SymArray masquerading as ttp.Instance with n_cities/rounds attributes"])
