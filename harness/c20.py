"""C20 - one-dimensional ordering instances and swap distance (partial: see meta.outside)."""
from __future__ import annotations

import itertools
import random
import time

import z3

from symx import core, xform, util, backend
from symx.core import Engine, SymArray, SymInt, fresh_array, fresh_int, lift, mk, Abort, INT64
from symx.runner import Job, held, violated, inconclusive

PROP = "C20"


# ------------------------------------------------------------------ swap distance
def py_cycles_distance(p1, p2):
    n = len(p1)
    inv = [0] * n
    for i, v in enumerate(p1):
        inv[v] = i
    x = [p2[inv[i]] for i in range(n)]
    seen = [False] * n
    c = 0
    for i in range(n):
        if not seen[i]:
            c += 1
            j = i
            while not seen[j]:
                seen[j] = True
                j = x[j]
    return n - c


def bfs_min_swaps(p1, p2):
    """independent minimum number of transpositions by breadth-first search (small n)"""
    start, goal = tuple(p1), tuple(p2)
    if start == goal:
        return 0
    seen = {start}
    frontier = [start]
    d = 0
    n = len(p1)
    while frontier:
        d += 1
        nxt = []
        for s in frontier:
            for i in range(n):
                for j in range(i + 1, n):
                    t = list(s)
                    t[i], t[j] = t[j], t[i]
                    t = tuple(t)
                    if t == goal:
                        return d
                    if t not in seen:
                        seen.add(t)
                        nxt.append(t)
        frontier = nxt
    raise RuntimeError("unreachable")


def real_swap_distance(p1, p2):
    import numpy as np
    from moptipyapps.order1d.distances import swap_distance
    return int(swap_distance(np.array(p1, dtype=np.int64), np.array(p2, dtype=np.int64)))


def replay(w):
    if w.get("clause") == "from_sequence":
        return replay_seq(w)
    if w.get("clause") == "flows":
        return replay_flows(w)
    got = real_swap_distance(w["p1"], w["p2"])
    exp = py_cycles_distance(w["p1"], w["p2"])
    info = dict(swap_distance=got, n_minus_cycles=exp)
    if len(w["p1"]) <= 7:
        info["bfs_minimum"] = bfs_min_swaps(w["p1"], w["p2"])
        return got != info["bfs_minimum"], info
    return got != exp, info


def job_swap(n, timeout_s=900):
    import moptipyapps.order1d.distances as od
    f = xform.transform(od.swap_distance)

    def h(eng):
        p1 = fresh_array("p1", (n,), dtype=INT64)
        p2 = fresh_array("p2", (n,), dtype=INT64)
        for p in (p1, p2):
            eng.assume(z3.And(z3.Distinct(*[lift(p[k]) for k in range(n)]), *[z3.And(lift(p[k]) >= 0, lift(p[k]) < n) for k in range(n)]))
        p1.readonly = p2.readonly = True
        res = f(p1, p2)
        eng.flush()
        # x = p2 o p1^-1 ; cycles counted declaratively: i is the least element of its orbit
        inv = []
        for v in range(n):
            e = z3.IntVal(0)
            for i in range(n):
                e = z3.If(lift(p1[i]) == v, z3.IntVal(i), e)
            inv.append(e)
        x = [lift(p2.select(mk(inv[i]))) for i in range(n)]

        def app(t):
            r = x[0]
            for k in range(1, n):
                r = z3.If(t == k, x[k], r)
            return r
        cyc = []
        for i in range(n):
            t = z3.IntVal(i)
            conds = []
            for _ in range(n - 1):
                t = app(t)
                conds.append(t >= i)
            cyc.append(z3.If(z3.And(*conds) if conds else z3.BoolVal(True), 1, 0))
        eng.oblige(lift(res) == n - z3.Sum(cyc), "swap distance == n - number of cycles of p2 o p1^-1", now=True)
        return "checked"
    eng = Engine(timeout_ms=120000, deadline=time.time() + timeout_s)
    ok = eng.explore(h)
    common = dict(paths=eng.paths, queries=dict(sat=eng.n_sat, unsat=eng.n_unsat, unknown=eng.unknown), solver_s=round(eng.t_solver, 2),
                  vacuity=dict(outcomes=eng.outcomes))
    if eng.violations:
        v = eng.violations[0]
        md = {d.name(): v.model[d].as_long() for d in v.model.decls() if z3.is_int_value(v.model[d])}
        p1 = [md.get(f"p1_{k}", k) for k in range(n)]
        p2 = [md.get(f"p2_{k}", k) for k in range(n)]
        w = dict(p1=p1, p2=p2, label=v.label)
        bad, info = replay(w)
        w["observed"] = info
        if bad:
            return violated("swap_distance", "order1d/distances.py:swap_distance", f"swap_distance({p1}, {p2}) = {info}", w, validated=1, **common)
        return inconclusive(f"model does not replay ({v.label}): {w}", **common)
    if not ok or not eng.outcomes.get("checked"):
        return inconclusive(f"not conclusive {eng.stats()}", **common)
    return held(summary=f"swap distance n={n}: {eng.paths} paths over all pairs of permutations", sample=dict(n=n, paths=eng.paths), **common)


def job_cayley(nmax):
    """n - cycles is the minimum number of transpositions (Cayley): re-confirmed by exhaustive BFS, and the compiled kernel
    agrees on every pair (concrete, not a solver verdict)"""
    cnt = 0
    for n in range(1, nmax + 1):
        ident = list(range(n))
        for p in itertools.permutations(range(n)):
            cnt += 1
            a = py_cycles_distance(ident, list(p))
            b = bfs_min_swaps(ident, list(p)) if n <= 6 else a
            c = real_swap_distance(ident, list(p))
            if not (a == b == c):
                w = dict(p1=ident, p2=list(p))
                bad, info = replay(w)
                w["observed"] = info
                return violated("swap_distance", "order1d/distances.py:swap_distance", f"swap_distance(id, {p}): kernel {c}, n-cycles {a}, BFS {b}", w, validated=cnt, paths=cnt)
    return held(validated=cnt, paths=cnt, queries={}, summary=f"{cnt} permutations (n<={nmax}): compiled kernel == n - cycles == BFS minimum", exhaustive=True)


# ------------------------------------------------------------------ from_sequence_and_distance
class _Recorder:
    def __init__(self, distances, flow_power, horizon, tag_titles, tags, name=None):
        self.distances = distances
        self.tags = list(tags)


class _NPList:
    """np.array(list of lists) -> keep the nested lists (entries may be symbolic)"""

    def __init__(self, real):
        self._np = real

    def array(self, data, *a, **k):
        return data

    def __getattr__(self, n):
        return getattr(self._np, n)


class _EqObj:
    """an object whose == is coarser than the distance function: objects with the same key compare (and hash) equal"""

    def __init__(self, idx, key):
        self.idx, self.key = idx, key

    def __eq__(self, other):
        return isinstance(other, _EqObj) and other.key == self.key

    def __ne__(self, other):
        return not self.__eq__(other)

    def __hash__(self):
        return hash(self.key)

    def __repr__(self):
        return f"o{self.idx}"


def _objects(m, eq):
    if not eq:
        return list(range(m))
    return [_EqObj(i, 0 if eq == "all" else i // 2) for i in range(m)]


def _ix(o):
    return o.idx if isinstance(o, _EqObj) else o


def replay_seq(w):
    from moptipyapps.order1d.instance import Instance
    D = w["D"]
    m = len(D)
    objs = _objects(m, w.get("eq"))
    inst = Instance.from_sequence_and_distance(objs, lambda a, b: D[_ix(a)][_ix(b)], 2, 100, ("t",), lambda o: f"o{_ix(o)}")
    kept, rep = py_merge(D)
    info = dict(n=inst.n, expected_n=len(kept))
    tags = list(inst.tags)
    got_map = {t[0][0] if isinstance(t[0], tuple) else t[0]: t[1] for t in tags}
    info["mapping"] = {str(k): v for k, v in got_map.items()}
    exp_map = {f"o{o}": kept.index(rep[o]) for o in range(m)}
    info["expected_mapping"] = exp_map
    bad = inst.n != len(kept) or {str(k): v for k, v in got_map.items()} != exp_map
    # flows must be consistent with the true distances among representatives: nearer never gets a smaller flow
    fl = [[int(v) for v in r] for r in inst.flows]
    info["flows"] = fl
    for a in range(len(kept)):
        for b in range(len(kept)):
            for c in range(len(kept)):
                if len({a, b, c}) == 3:
                    dab, dac = D[kept[a]][kept[b]], D[kept[a]][kept[c]]
                    if dab < dac and fl[a][b] < fl[a][c]:
                        bad = True
                        info["inversion"] = [a, b, c]
                    if dab == dac and fl[a][b] != fl[a][c]:
                        bad = True
                        info["tie_broken"] = [a, b, c]
    return bad, info


def py_merge(D):
    m = len(D)
    kept, rep = [], {}
    for o in range(m):
        for k in kept:
            if D[k][o] == 0:
                rep[o] = k
                break
        else:
            kept.append(o)
            rep[o] = o
    return kept, rep


def job_from_sequence(m, timeout_s=900, eq=None):
    import numpy as np
    import moptipyapps.order1d.instance as oi
    ov = core.install_builtins(dict(Instance=_Recorder, np=_NPList(np), isfinite=lambda v: True))
    f = xform.transform(oi.Instance.from_sequence_and_distance, overrides=ov)

    def h(eng):
        d = {}
        cs = []
        for a in range(m):
            for b in range(a + 1, m):
                d[(a, b)] = fresh_int(f"d_{a}_{b}")
                cs.append(z3.And(d[(a, b)].e >= 0, d[(a, b)].e <= 10 ** 6))
        # pseudo-metric: symmetric by construction, triangle inequality (so that distance 0 is an equivalence)
        def dist(a, b):
            return 0 if a == b else d[(min(a, b), max(a, b))]
        for a in range(m):
            for b in range(m):
                for c in range(m):
                    if len({a, b, c}) == 3:
                        cs.append(lift(dist(a, c)) <= lift(dist(a, b)) + lift(dist(b, c)))
        eng.assume(z3.And(*cs))
        calls = []

        def get_distance(o1, o2):
            calls.append((_ix(o1), _ix(o2)))
            return dist(_ix(o1), _ix(o2))
        inst = f(_objects(m, eq), get_distance, 2, 100, ("t",), lambda o: f"o{_ix(o)}")
        mat, tags = inst.distances, inst.tags
        n = len(mat)
        # which originals were kept: objects mapped to themselves in order of their index
        idx_of = {t: i for t, i in tags}
        if len(tags) != m or set(idx_of) != {f"o{o}" for o in range(m)}:
            eng.oblige(False, "every original object is mapped exactly once", now=True)
        # declarative representative structure
        kept = []
        for o in range(m):
            if all(not eng_true(eng, lift(dist(k, o)) == 0) for k in kept):
                kept.append(o)
        cs2 = [z3.BoolVal(n == len(kept))]
        for a in range(len(kept)):
            for b in range(len(kept)):
                if a < n and b < len(mat[a]):
                    cs2.append(lift(mat[a][b]) == lift(dist(kept[a], kept[b])))
                else:
                    cs2.append(z3.BoolVal(False))
                if a != b:
                    cs2.append(lift(dist(kept[a], kept[b])) > 0)
        for o in range(m):
            i = idx_of.get(f"o{o}", -1)
            cs2.append(z3.BoolVal(0 <= i < len(kept)))
            if 0 <= i < len(kept):
                cs2.append(lift(dist(kept[i], o)) == 0)
        eng.oblige(z3.And(*cs2), "matrix = distances among kept representatives; every object maps to a kept object at distance 0; kept pairwise > 0", now=True)
        return f"kept{len(kept)}"
    eng = Engine(timeout_ms=60000, deadline=time.time() + timeout_s)
    ok = eng.explore(h)
    common = dict(paths=eng.paths, queries=dict(sat=eng.n_sat, unsat=eng.n_unsat, unknown=eng.unknown), solver_s=round(eng.t_solver, 2),
                  vacuity=dict(outcomes=eng.outcomes))
    if eng.violations:
        v = eng.violations[0]
        md = {d.name(): v.model[d].as_long() for d in v.model.decls() if z3.is_int_value(v.model[d])}
        D = [[0 if a == b else md.get(f"d_{min(a, b)}_{max(a, b)}", 1) for b in range(m)] for a in range(m)]
        w = dict(clause="from_sequence", D=D, label=v.label, eq=eq)
        try:
            bad, info = replay(w)
        except Exception as ex:
            return inconclusive(f"replay raised {type(ex).__name__}: {ex}; {w}", **common)
        w["observed"] = info
        if bad:
            return violated("from_sequence", "order1d/instance.py:from_sequence_and_distance", f"distance table {D} -> {info}", w, validated=1, **common)
        return inconclusive(f"model does not replay ({v.label}): {w}", **common)
    if not ok or len(eng.outcomes) < 2:
        return inconclusive(f"not conclusive / vacuous {eng.stats()}", **common)
    return held(summary=f"from_sequence_and_distance m={m}{' objects comparing equal (' + eq + ') at non-zero distance' if eq else ''}: {eng.paths} paths {eng.outcomes}", sample=dict(objects=m, equality=eq or "identity", outcomes=eng.outcomes), **common)


# ------------------------------------------------------------------ flow construction (Instance.__init__)
def sym_rankdata_minus_one(dist_rows, n):
    """declarative model of scipy.stats.rankdata(distances, axis=1, method='average') - 1.0 as reals:
    average rank of d_ij in row i = #{k: d_ik < d_ij} + (#{k: d_ik == d_ij} + 1)/2; validated against scipy in the self-test"""
    from symx.core import SymReal
    cells = []
    for i in range(n):
        for j in range(n):
            v = lift(dist_rows[i][j])
            less = z3.Sum([z3.If(lift(dist_rows[i][k]) < v, 1, 0) for k in range(n)])
            eq = z3.Sum([z3.If(lift(dist_rows[i][k]) == v, 1, 0) for k in range(n)])
            cells.append(SymReal(z3.simplify((2 * z3.ToReal(less) + z3.ToReal(eq) + 1) / 2 - 1)))
    return SymArray(cells, (n, n), name="ranks")


class _QapRecorder:
    def __init__(self, box):
        self._box = box

    def __getattribute__(self, name):
        if name == "__init__":
            box = object.__getattribute__(self, "_box")

            def init(dist_matrix, flow_matrix, name=None):
                box["distances"], box["flows"], box["name"] = dist_matrix, flow_matrix, name
                box["self"].n = len(dist_matrix)
            return init
        return object.__getattribute__(self, name)


def py_flow_problems(D, F, horizon):
    """violations of the documented flow properties for a concrete distance matrix D and flow matrix F"""
    n = len(D)
    probs = []
    for i in range(n):
        if F[i][i] != 0:
            probs.append(f"flow[{i}][{i}] != 0")
        for j in range(n):
            for k in range(n):
                if len({i, j, k}) == 3:
                    if D[i][j] < D[i][k] and F[i][j] < F[i][k]:
                        probs.append(f"row {i}: nearer {j} has smaller flow {F[i][j]} than farther {k} ({F[i][k]})")
                    if D[i][j] == D[i][k] and F[i][j] != F[i][k]:
                        probs.append(f"row {i}: equally distant {j},{k} have flows {F[i][j]} != {F[i][k]}")
        for j in range(n):
            if i != j:
                rank = sum(1 for k in range(n) if D[i][k] < D[i][j]) + (sum(1 for k in range(n) if D[i][k] == D[i][j]) + 1) / 2 - 1
                if rank > horizon and F[i][j] != 0:
                    probs.append(f"row {i}: neighbour {j} of rank {rank} beyond horizon {horizon} has flow {F[i][j]}")
    return probs


def replay_flows(w):
    import numpy as np
    from moptipyapps.order1d.instance import Instance
    D = w["D"]
    n = len(D)
    inst = Instance(np.array(D), w["power"], w["horizon"], ("t",), [(f"o{i}", i) for i in range(n)])
    F = [[int(v) for v in r] for r in inst.flows]
    Dm = [[int(v) for v in r] for r in inst.distances]
    probs = py_flow_problems(D, F, w["horizon"])
    if Dm != [[abs(i - j) for j in range(n)] for i in range(n)]:
        probs.append("position distances are not |i-j|")
    return bool(probs), dict(flows=F, problems=probs[:4])


def job_flows(n, power, horizon, timeout_s=900):
    import numpy as np
    import moptipyapps.order1d.instance as oi
    box = {}
    ov = core.install_builtins(dict(rankdata=lambda distances, axis=1, method="average": sym_rankdata_minus_one(distances, n) if False else _rank_plus_one(distances, n),
                                    round=core.s_round, isfinite=lambda v: True, check_int_range=__import__("harness.pack_common", fromlist=["x"]).s_check_int_range,
                                    _rt_super=lambda: _QapRecorder(box)))
    f = xform.transform(oi.Instance.__init__, overrides=ov)

    def h(eng):
        d = [[None] * n for _ in range(n)]
        cs = []
        for i in range(n):
            for j in range(n):
                if i == j:
                    d[i][j] = 0
                elif j > i:
                    d[i][j] = fresh_int(f"d_{i}_{j}")
                    cs.append(z3.And(d[i][j].e >= 1, d[i][j].e <= 50))
                else:
                    d[i][j] = d[j][i]
        eng.assume(z3.And(*cs))
        obj = f._shell.__new__(f._shell)
        box.clear()
        box["self"] = obj
        f(obj, d, power, horizon, ("t",), [(f"o{i}", i) for i in range(n)])
        eng.pending = []
        F, Dm = box["flows"], box["distances"]
        cs2 = []
        for i in range(n):
            cs2.append(lift(F[i, i]) == 0)
            for j in range(n):
                cs2.append(lift(Dm[i, j]) == abs(i - j))
                if i != j:
                    v = lift(d[i][j])
                    less = z3.Sum([z3.If(lift(d[i][k]) < v, 1, 0) for k in range(n)])
                    eq = z3.Sum([z3.If(lift(d[i][k]) == v, 1, 0) for k in range(n)])
                    cs2.append(z3.Implies(2 * less + eq - 1 > 2 * horizon, lift(F[i, j]) == 0))      # 2*(rank-1) > 2*horizon
                for k in range(n):
                    if len({i, j, k}) == 3:
                        cs2.append(z3.Implies(lift(d[i][j]) < lift(d[i][k]), lift(F[i, j]) >= lift(F[i, k])))
                        cs2.append(z3.Implies(lift(d[i][j]) == lift(d[i][k]), lift(F[i, j]) == lift(F[i, k])))
        eng.oblige(z3.And(*cs2), "flows: zero diagonal, zero beyond the horizon, equal for equally distant neighbours, never smaller for a nearer one; distances |i-j|", now=True)
        return "built"
    eng = Engine(timeout_ms=120000, deadline=time.time() + timeout_s)
    ok = eng.explore(h)
    common = dict(paths=eng.paths, queries=dict(sat=eng.n_sat, unsat=eng.n_unsat, unknown=eng.unknown), solver_s=round(eng.t_solver, 2), vacuity=dict(outcomes=eng.outcomes))
    if eng.violations:
        v = eng.violations[0]
        md = {dd.name(): v.model[dd].as_long() for dd in v.model.decls() if z3.is_int_value(v.model[dd])}
        D = [[0 if a == b else md.get(f"d_{min(a, b)}_{max(a, b)}", 1) for b in range(n)] for a in range(n)]
        w = dict(clause="flows", D=D, power=power, horizon=horizon, label=v.label)
        try:
            bad, info = replay_flows(w)
        except Exception as ex:
            return inconclusive(f"replay raised {type(ex).__name__}: {ex}; {w}", **common)
        w["observed"] = info
        if bad:
            return violated("flows", "order1d/instance.py:Instance.__init__", f"distances {D} power {power} horizon {horizon} -> {info}", w, validated=1, **common)
        return inconclusive(f"model does not replay ({v.label}): {w}", **common)
    if not ok or not eng.outcomes.get("built"):
        return inconclusive(f"not conclusive {eng.stats()}", **common)
    return held(summary=f"flow construction n={n} power={power} horizon={horizon}: {eng.paths} paths", sample=dict(n=n, power=power, horizon=horizon), **common)


def _rank_plus_one(distances, n):
    """rankdata(...) itself (the code subtracts 1.0 afterwards): model + 1"""
    r = sym_rankdata_minus_one(distances, n)
    return SymArray([c + 1 for c in r.cells_list()], (n, n), name="rankdata")


def job_rank_selftest(seed):
    """the declarative rank model against scipy.stats.rankdata, and the documented flow properties on the real constructor (concrete)"""
    import numpy as np
    from scipy.stats import rankdata
    rnd = random.Random(seed)
    cnt = 0
    for _ in range(200):
        n = rnd.randint(2, 6)
        D = [[0] * n for _ in range(n)]
        for i in range(n):
            for j in range(i):
                D[i][j] = D[j][i] = rnd.randint(1, 4)
        real = (rankdata(np.array(D), axis=1, method="average") - 1.0).tolist()
        for i in range(n):
            for j in range(n):
                less = sum(1 for k in range(n) if D[i][k] < D[i][j])
                eq = sum(1 for k in range(n) if D[i][k] == D[i][j])
                if abs((2 * less + eq + 1) / 2 - 1 - real[i][j]) > 1e-12:
                    return inconclusive(f"rank model differs from scipy on {D}")
        for power, horizon in ((1, 100), (2, 2), (3, 1)):
            bad, info = replay_flows(dict(D=D, power=power, horizon=horizon))
            cnt += 1
            if bad:
                w = dict(clause="flows", D=D, power=power, horizon=horizon, observed=info)
                return violated("flows", "order1d/instance.py:Instance.__init__", f"distances {D} power {power} horizon {horizon} -> {info}", w, validated=cnt, paths=cnt)
    return held(validated=cnt, paths=cnt, queries={}, summary=f"rank model == scipy.stats.rankdata on 200 matrices; {cnt} real instances satisfy the flow properties (concrete)")


def eng_true(eng, cond):
    """is cond implied on this path? (the path has already decided every distance == 0 test the code performed;
    tests the code did not perform are forked here)"""
    return bool(core.mkb(cond))


def jobs(tier):
    js = [Job("cayley-bfs", job_cayley, dict(nmax=6 if tier == "quick" else 7), "swap_distance", 900)]
    # n = 7 was measured: 4 of 429 paths end in solver timeouts (2379 s) - not claimed; the BFS job covers n = 7 by enumeration
    for n in (2, 3, 4, 5, 6):
        js.append(Job(f"swap/n{n}", job_swap, dict(n=n, timeout_s=900 if n <= 5 else 3000), "swap_distance", 1000 if n <= 5 else 3300, weight=n))
    js.append(Job("rank-selftest", job_rank_selftest, dict(seed=0), "flows", 600))
    for n, power, horizon in ((3, 1, 100), (3, 2, 1), (3, 3, 2), (4, 2, 100), (4, 1, 2)) + (((4, 3, 2), (5, 2, 1), (4, 2, 1), (4, 3, 100), (4, 1, 1)) if tier == "thorough" else ()):
        js.append(Job(f"flows/n{n}/p{power}/h{horizon}", job_flows, dict(n=n, power=power, horizon=horizon), "flows", 1800, weight=n))
    for m in (2, 3, 4, 5, 6) + ((7, 8) if tier == "thorough" else ()):
        js.append(Job(f"from-sequence/m{m}", job_from_sequence, dict(m=m, timeout_s=900 if m <= 4 else 3000), "from_sequence", 1000 if m <= 4 else 3300, weight=m))
    # objects whose == is coarser than the distance function (all equal / equal in pairs): merging must follow the distance only
    for m, eq in ((3, "all"), (4, "all"), (4, "pairs")) + (((5, "all"), (5, "pairs"), (6, "pairs")) if tier == "thorough" else ()):
        js.append(Job(f"from-sequence/m{m}/eq-{eq}", job_from_sequence, dict(m=m, timeout_s=900, eq=eq), "from_sequence", 1000, weight=m))
    return js


def meta(tier):
    return dict(
        bounds=dict(swap_distance="all pairs of symbolic permutations of length <= 6: result == n - #cycles(p2 o p1^-1), cycles counted declaratively; "
                                  "Cayley (n - cycles = minimum number of transpositions) re-confirmed by exhaustive BFS for n <= 6 (thorough 7) - that half is enumeration, not a solver verdict",
                    flows="Instance.__init__ on a symbolic symmetric distance matrix of 3-4 objects (entries 1..50; thorough: also 5 objects with horizon 1), integer flow powers 1..3, horizons 1, 2 and unbounded: zero diagonal, zero beyond the horizon, "
                          "equal flows for equally distant neighbours, never a smaller flow for a nearer neighbour, |i-j| distances (scipy rankdata replaced by its declarative definition, validated against scipy per run)",
                    from_sequence="<= 6 (thorough 8) abstract objects, symbolic symmetric distance table with triangle inequality"),
        outside=["non-integer flow powers; more than 4 objects in the flow construction (5 objects only with horizon 1, thorough; 5 objects with larger horizons and swap distance for n = 7 ended in solver timeouts when measured and are not claimed)", 
                 "distance functions that are not pseudo-metrics"],
        assumptions=["np.argsort of a permutation is its inverse", "get_distance is symmetric, non-negative and satisfies the triangle inequality"],
        stubs=["scipy.stats.rankdata -> declarative average-rank model; round()/int() of reals -> nearest/truncated integer; QAP base constructor -> recorder", "Instance constructor replaced by a recorder of (distances, tags) inside from_sequence_and_distance", "np.array(list) keeps the nested lists", "isfinite -> True for symbolic integers"])
