"""C11 - controller figure of merit is a pure function of the parameters (modulo stubs).

One operation of the real FigureOfMerit / FigureOfMeritLE code (evaluate, initialize, set_raw, set_model,
get_differentials) is run from an ARBITRARY object state that satisfies the invariant
    I:  equations in {real, model};  collect => (equations is real and model mode supported)  [raw mode collects iff supported;
        model mode never collects - also when the model IS the system's own equations object];
        both collections exist iff model mode is supported and have equal length
with arbitrary garbage in the internal results array; run_ode / j_from_ode / diff_from_ode are uninterpreted
functions of (training case, equations, x).  The post-state must satisfy I again and the operation's documented
effect; evaluate must return spec(x, equations).  Histories of any length follow by induction."""
from __future__ import annotations

import itertools
import math
import random
import time

import z3

from symx import core, xform, util, backend
from symx.core import Engine, SymArray, SymReal, SymInt, fresh_array, lift, mk, mkb, Abort, NPShim
from symx.runner import Job, held, violated, inconclusive

PROP = "C11"
REAL_EQ = "REAL-EQUATIONS"
MODEL_EQ = "MODEL-EQUATIONS"
MODEL2_EQ = "SECOND-MODEL-EQUATIONS"


def eq_id(eq):
    return 0 if eq is REAL_EQ else (1 if eq is MODEL_EQ else 2)


class Ode:
    def __init__(self, case, eq):
        self.case, self.eq = case, eq


class Diff(tuple):
    pass


def _jfun():
    return z3.Function("J", z3.IntSort(), z3.IntSort(), z3.RealSort())


class _NP11(NPShim):
    def copy(self, a):
        return a

    def log1p(self, a, out=None):
        f = z3.Function("log1p", z3.RealSort(), z3.RealSort())
        vals = [SymReal(f(lift(v))) if isinstance(v, (SymReal, SymInt)) else SymReal(f(z3.RealVal(v))) for v in a.cells_list()]
        tgt = out if out is not None else SymArray([0] * len(vals), a.shape, name="log1p")
        for p, v in zip(tgt._positions(), vals):
            tgt.cells[p] = v
        return tgt

    def concatenate(self, lst):
        return Diff(("concat",) + tuple(lst))


def _mean(self):
    c = self.cells_list()
    return core.s_sum(c) / len(c)


SymArray.mean = _mean


def s_expm1(v):
    f = z3.Function("expm1", z3.RealSort(), z3.RealSort())
    return SymReal(f(lift(v)))


def fom(variant):
    import moptipyapps.dynamic_control.objective as ob
    cls = ob.FigureOfMerit if variant == "plain" else ob.FigureOfMeritLE
    J = _jfun()

    def run_ode(start, equations, controller, x, cdim, steps, tm):
        return Ode(start.case, equations)

    def j_from_ode(ode, state_dim, sdj, gamma):
        return SymReal(J(z3.IntVal(ode.case), z3.IntVal(eq_id(ode.eq))))

    def diff_from_ode(ode, state_dim):
        return (("sc", ode.case, ode.eq), ("df", ode.case, ode.eq))
    ov = core.install_builtins(dict(np=_NP11(), run_ode=run_ode, j_from_ode=j_from_ode, diff_from_ode=diff_from_ode, expm1=s_expm1))
    memo = {}
    base = ob.FigureOfMerit
    meths = {}
    import types
    for name in ("__init__", "initialize", "set_raw", "get_differentials", "set_model", "evaluate"):
        meths[name] = xform.transform(base.__dict__[name], ov, memo, owner=base)
    # private helper methods (whatever they are called in the working tree) are run from the same source
    for name, fn in base.__dict__.items():
        if isinstance(fn, types.FunctionType) and name.startswith("_FigureOfMerit__") and name not in meths:
            meths[name] = xform.transform(fn, ov, memo, owner=base)
    meths["sum_up_results"] = xform.transform(cls.__dict__["sum_up_results"], ov, memo, owner=cls)
    shell = meths["__init__"]._shell

    class Obj(shell):
        pass
    for k, v in meths.items():
        setattr(Obj, k, v)
    # Objective.initialize() of moptipy (super().initialize()) is a no-op for this purpose
    return Obj, J, ob


class Case(SymArray):
    pass


MODELLED = ("steps", "time", "training", "results", "equations", "controller", "controller_dim", "collection_sc", "collection_df", "collect",
            "state_dims_in_j", "gamma")
_HIDDEN = {}


def _real_instance():
    from moptipyapps.dynamic_control.controllers.linear import linear
    from moptipyapps.dynamic_control.instance import Instance
    from moptipyapps.dynamic_control.system import System
    from moptipyapps.dynamic_control.systems.stuart_landau import STUART_LANDAU_4 as base
    sysm = System(base.name, base.state_dims, base.control_dims, base.state_dim_mod, base.state_dims_in_j, base.gamma,
                  base.test_starting_states, base.training_starting_states, 30, 3.0, 30, 3.0, base.plot_examples)
    sysm.equations = base.equations
    return Instance(sysm, linear(sysm))


def hidden_attrs(supports):
    """private fields of the working tree's FigureOfMerit that the abstract state does not model (none on the pinned tree): each gets
    the value the REAL constructor gives it (the system's equations object is mapped to the token of the real equations); the states
    such a field reaches later are covered by the operation-sequence job"""
    if supports in _HIDDEN:
        return _HIDDEN[supports]
    import moptipyapps.dynamic_control.objective as ob
    inst = _real_instance()
    o = ob.FigureOfMerit(inst, supports)
    pre = "_FigureOfMerit__"
    res = {}
    for k, v in vars(o).items():
        if k.startswith(pre) and k[len(pre):] not in MODELLED:
            if v is inst.system.equations:
                res[k] = REAL_EQ
            elif v is None or isinstance(v, (bool, int, float, str)):
                res[k] = v
            else:
                raise NotImplementedError(f"private field {k} of an unmodelled kind ({type(v).__name__})")
    _HIDDEN[supports] = res
    return res


def make_state(Obj, eng, ncases, supports, eq, coll_len, garbage=True, collect=None):
    """an arbitrary object state satisfying the invariant; collect=None: raw mode collects, model mode does not"""
    o = Obj.__new__(Obj)
    tr = []
    for i in range(ncases):
        c = Case([0.0, 0.0], (2,), name=f"start{i}")
        c.case = i
        tr.append(c)

    class Sys:
        equations = REAL_EQ
    class Ctrl:
        controller = "CTRL"
    class Inst:
        system = Sys()
        controller = Ctrl()
    p = "_FigureOfMerit__"
    setattr(o, "instance", Inst())
    setattr(o, p + "steps", 10)
    setattr(o, p + "time", 1.0)
    setattr(o, p + "training", tr)
    res = fresh_array("garbage", (ncases,), real=True)
    setattr(o, p + "results", res)
    setattr(o, p + "equations", eq)
    setattr(o, p + "controller", "CTRL")
    setattr(o, p + "controller_dim", 1)
    setattr(o, p + "collection_sc", [("sc", "old", k) for k in range(coll_len)] if supports else None)
    setattr(o, p + "collection_df", [("df", "old", k) for k in range(coll_len)] if supports else None)
    setattr(o, p + "collect", bool(supports and eq is REAL_EQ) if collect is None else bool(collect))
    setattr(o, p + "state_dims_in_j", 2)
    setattr(o, p + "gamma", 0.1)
    for k, v in hidden_attrs(bool(supports)).items():
        setattr(o, k, v)
    return o


def invariant(o, supports):
    p = "_FigureOfMerit__"
    eq = getattr(o, p + "equations")
    sc, df = getattr(o, p + "collection_sc"), getattr(o, p + "collection_df")
    probs = []
    if supports:
        if sc is None or df is None:
            probs.append("collections vanished")
        elif len(sc) != len(df):
            probs.append(f"collections differ in length ({len(sc)} vs {len(df)})")
    else:
        if sc is not None or df is not None:
            probs.append("collections exist although model mode is unsupported")
    if getattr(o, p + "collect") and not (supports and eq is REAL_EQ):
        probs.append(f"collect flag {getattr(o, p + 'collect')} with equations {eq} supports={supports}")
    return probs


def spec_value(J, variant, ncases, eqid):
    """mean (or LE transform) of the per-case values, or 1e200 at the first case outside [0, 1e100]"""
    js = [J(z3.IntVal(i), z3.IntVal(eqid)) for i in range(ncases)]
    ok = [z3.And(j >= 0, j <= lift(1e100)) for j in js]
    if variant == "plain":
        total = z3.Sum(js) / ncases
    else:
        l1, e1 = z3.Function("log1p", z3.RealSort(), z3.RealSort()), z3.Function("expm1", z3.RealSort(), z3.RealSort())
        total = e1(z3.Sum([l1(j) for j in js]) / ncases)
    fin = z3.If(z3.And(total >= 0, total <= lift(1e100)), total, lift(1e200))
    return z3.If(z3.And(*ok), fin, lift(1e200)), ok


def job_ops(variant, ncases):
    Obj, J, ob = fom(variant)
    problems = []
    stats = dict(paths=0, sat=0, unsat=0, unknown=0, solver=0.0, states=0)

    def run(fn):
        eng = Engine(timeout_ms=60000)
        ok = eng.explore(fn)
        stats["paths"] += eng.paths
        stats["sat"] += eng.n_sat
        stats["unsat"] += eng.n_unsat
        stats["unknown"] += eng.unknown
        stats["solver"] += eng.t_solver
        if eng.violations:
            problems.append(eng.violations[0].label)
        elif not ok:
            problems.append(f"exploration not conclusive {eng.stats()}")
    p = "_FigureOfMerit__"
    # abstract states: raw mode (real equations; collecting iff model mode is supported), model mode with a separate model, and model
    # mode with a model that IS the system's own equations object (real equations, collection off)
    modes = [(True, REAL_EQ, True), (True, REAL_EQ, False), (True, MODEL_EQ, False), (False, REAL_EQ, False)]
    for (supports, eq, col), L in itertools.product(modes, (0, 1, 2)):
        if not supports and L > 0:
            continue
        stats["states"] += 1
        tag = f"[supports={supports} eq={'real' if eq is REAL_EQ else 'model'} collecting={col} collected={L}]"

        def ev(eng):
            o = make_state(Obj, eng, ncases, supports, eq, L, collect=col)
            val = o.evaluate("X")
            spec, oks = spec_value(J, variant, ncases, eq_id(eq))
            eng.oblige(lift(val) == spec, f"evaluate returns spec(x, equations) {tag}", now=True)
            eng.oblige(z3.Or(lift(val) == lift(1e200), z3.And(lift(val) >= 0, lift(val) <= lift(1e100))), f"value in [0,1e100] or 1e200 {tag}", now=True)
            for q in invariant(o, supports):
                eng.oblige(False, f"evaluate breaks the invariant: {q} {tag}", now=True)
            sc = getattr(o, p + "collection_sc")
            if supports:
                grown = len(sc) - L
                # number of completed cases = index of the first case outside the range (or all)
                m = eng.s.model() if eng._check() == z3.sat else None
                done = ncases
                for i, c in enumerate(oks):
                    if m is not None and z3.is_false(m.eval(c, model_completion=True)):
                        done = i
                        break
                exp = done if col else 0
                if grown != exp:
                    eng.oblige(False, f"training data grew by {grown}, expected {exp} {tag}", now=True)
                if col and any(e[2] is not REAL_EQ for e in sc[L:]):
                    eng.oblige(False, f"collected data not from the real system {tag}", now=True)
            if getattr(o, p + "equations") is not eq:
                eng.oblige(False, f"evaluate changed the equations {tag}", now=True)
            return "evaluate"
        run(ev)

        def ini(eng):
            o = make_state(Obj, eng, ncases, supports, eq, L, collect=col)
            o.initialize()
            for q in invariant(o, supports):
                eng.oblige(False, f"initialize breaks the invariant: {q} {tag}", now=True)
            if getattr(o, p + "equations") is not REAL_EQ:
                eng.oblige(False, f"initialize does not restore the real equations {tag}", now=True)
            if bool(getattr(o, p + "collect")) != bool(supports):
                eng.oblige(False, f"initialize does not switch data collection back on {tag}", now=True)
            if supports and (len(getattr(o, p + "collection_sc")) != 0 or len(getattr(o, p + "collection_df")) != 0):
                eng.oblige(False, f"initialize does not clear the collected data {tag}", now=True)
            return "initialize"
        run(ini)

        def sraw(eng):
            o = make_state(Obj, eng, ncases, supports, eq, L, collect=col)
            o.set_raw()
            for q in invariant(o, supports):
                eng.oblige(False, f"set_raw breaks the invariant: {q} {tag}", now=True)
            if getattr(o, p + "equations") is not REAL_EQ:
                eng.oblige(False, f"set_raw does not restore the real equations {tag}", now=True)
            if bool(getattr(o, p + "collect")) != bool(supports):
                eng.oblige(False, f"set_raw does not switch data collection back on {tag}", now=True)
            if supports and len(getattr(o, p + "collection_sc")) != L:
                eng.oblige(False, f"set_raw changed the collected data {tag}", now=True)
            return "set_raw"
        run(sraw)

        for model in (MODEL_EQ, REAL_EQ):
            def smod(eng, model=model):
                o = make_state(Obj, eng, ncases, supports, eq, L, collect=col)
                try:
                    o.set_model(model)
                except ValueError:
                    if supports:
                        eng.oblige(False, f"set_model raises although model mode is supported {tag}", now=True)
                    return "set_model-rejected"
                if not supports:
                    eng.oblige(False, f"set_model accepted without model mode support {tag}", now=True)
                for q in invariant(o, supports):
                    eng.oblige(False, f"set_model breaks the invariant: {q} {tag}", now=True)
                if getattr(o, p + "equations") is not model or len(getattr(o, p + "collection_sc")) != L:
                    eng.oblige(False, f"set_model: wrong equations or changed data {tag}", now=True)
                if getattr(o, p + "collect"):
                    eng.oblige(False, f"set_model leaves data collection on {tag}", now=True)
                return "set_model"
            run(smod)

        def gd(eng):
            o = make_state(Obj, eng, ncases, supports, eq, L, collect=col)
            try:
                a, b = o.get_differentials()
            except ValueError:
                if supports:
                    eng.oblige(False, f"get_differentials raises although supported {tag}", now=True)
                return "get_differentials-rejected"
            except IndexError:
                if L == 0:
                    return "get_differentials-empty"      # no data yet: numpy raises on concatenating nothing as well
                raise
            for q in invariant(o, supports):
                eng.oblige(False, f"get_differentials breaks the invariant: {q} {tag}", now=True)
            if getattr(o, p + "equations") is not eq:
                eng.oblige(False, f"get_differentials changed the equations {tag}", now=True)
            return "get_differentials"
        run(gd)
    common = dict(paths=stats["paths"], queries=dict(sat=stats["sat"], unsat=stats["unsat"], unknown=stats["unknown"]), solver_s=round(stats["solver"], 2),
                  sample=dict(variant=variant, training_cases=ncases, abstract_states=stats["states"], operations=["evaluate", "initialize", "set_raw", "set_model", "get_differentials"]))
    if problems:
        bad, info = battery()
        w = dict(kind="ops", variant=variant, problems=problems[:4], observed=info)
        if bad:
            return violated("pure_function_of_parameters", "dynamic_control/objective.py", f"{problems[0]}; on the real objects: {info}", w, validated=1, **common)
        return inconclusive(f"symbolic step finding not reproduced by the concrete operation battery: {problems[:3]}", **common)
    return held(summary=f"FigureOfMerit{'LE' if variant == 'le' else ''}: 5 operations x {stats['states']} abstract states x {ncases} training cases: invariant and semantics hold ({stats['paths']} paths)", **common)


def job_seq(variant):
    """every sequence of up to three mode operations (initialize, set_raw, set_model with two different models or the system's own
    equations) on an object in its constructed state, then evaluate: the state each operation must establish and the value of the
    final evaluation.  Reaches the states of private fields that the one-operation jobs hold at their constructed value."""
    Obj, J, ob = fom(variant)
    p = "_FigureOfMerit__"
    ops = ["initialize", "set_raw", ("set_model", MODEL_EQ), ("set_model", MODEL2_EQ), ("set_model", REAL_EQ)]
    problems = []
    stats = dict(paths=0, sat=0, unsat=0, unknown=0, solver=0.0, seqs=0)
    for n in (1, 2, 3):
        for seq in itertools.product(ops, repeat=n):
            stats["seqs"] += 1
            tag = "[" + " -> ".join(o if isinstance(o, str) else "set_model(" + ("model1" if o[1] is MODEL_EQ else "model2" if o[1] is MODEL2_EQ else "system equations") + ")" for o in seq) + " -> evaluate]"

            def fn(eng, seq=seq, tag=tag):
                o = make_state(Obj, eng, 1, True, REAL_EQ, 0, collect=True)
                cur, col = REAL_EQ, True
                for op in seq:
                    if op == "initialize":
                        o.initialize()
                        cur, col = REAL_EQ, True
                        if len(getattr(o, p + "collection_sc")) != 0:
                            eng.oblige(False, f"initialize does not clear the collected data {tag}", now=True)
                    elif op == "set_raw":
                        o.set_raw()
                        cur, col = REAL_EQ, True
                    else:
                        o.set_model(op[1])
                        cur, col = op[1], False
                    for q in invariant(o, True):
                        eng.oblige(False, f"invariant broken: {q} {tag}", now=True)
                    if getattr(o, p + "equations") is not cur:
                        eng.oblige(False, f"after {op} the objective does not use the {'real' if cur is REAL_EQ else 'given model'} equations {tag}", now=True)
                    if bool(getattr(o, p + "collect")) != col:
                        eng.oblige(False, f"after {op} data collection is {'off' if col else 'on'} {tag}", now=True)
                before = len(getattr(o, p + "collection_sc"))
                val = o.evaluate("X")
                spec, oks = spec_value(J, variant, 1, eq_id(cur))
                eng.oblige(lift(val) == spec, f"evaluate returns spec(x, equations) {tag}", now=True)
                sc = getattr(o, p + "collection_sc")
                if not col and len(sc) != before:
                    eng.oblige(False, f"training data grew during a model evaluation {tag}", now=True)
                if any(e[2] is not REAL_EQ for e in sc):
                    eng.oblige(False, f"collected data not from the real system {tag}", now=True)
                return "seq"
            eng = Engine(timeout_ms=60000)
            ok = eng.explore(fn)
            stats["paths"] += eng.paths
            stats["sat"] += eng.n_sat
            stats["unsat"] += eng.n_unsat
            stats["unknown"] += eng.unknown
            stats["solver"] += eng.t_solver
            if eng.violations:
                problems.append(eng.violations[0].label)
            elif not ok:
                problems.append(f"exploration not conclusive {eng.stats()}")
            if len(problems) >= 4:
                break
    common = dict(paths=stats["paths"], queries=dict(sat=stats["sat"], unsat=stats["unsat"], unknown=stats["unknown"]), solver_s=round(stats["solver"], 2),
                  sample=dict(variant=variant, sequences=stats["seqs"], unmodelled_private_fields=sorted(hidden_attrs(True))))
    if problems:
        bad, info = battery()
        w = dict(kind="seq", variant=variant, problems=problems[:4], observed=info)
        if bad:
            return violated("pure_function_of_parameters", "dynamic_control/objective.py", f"{problems[0]}; on the real objects: {info}", w, validated=1, **common)
        return inconclusive(f"operation-sequence finding not reproduced by the concrete operation battery: {problems[:3]}", **common)
    return held(summary=f"FigureOfMerit{'LE' if variant == 'le' else ''}: {stats['seqs']} sequences of up to 3 mode operations from the constructed state, then evaluate: states and values as specified ({stats['paths']} paths)", **common)


def replay(w):
    return battery()


def battery():
    """operation sequences on the REAL objects (small real system, few steps), each compared with a fresh object"""
    import numpy as np
    from moptipyapps.dynamic_control.systems.stuart_landau import make_stuart_landau
    from moptipyapps.dynamic_control.controllers.linear import linear
    from moptipyapps.dynamic_control.instance import Instance
    from moptipyapps.dynamic_control.objective import FigureOfMerit, FigureOfMeritLE
    from moptipyapps.dynamic_control.system import System
    from moptipyapps.dynamic_control.systems.stuart_landau import STUART_LANDAU_4 as base
    # the four-training-case system with a shortened simulation (30 steps over 3 time units) and its real equations
    sysm = System(base.name, base.state_dims, base.control_dims, base.state_dim_mod, base.state_dims_in_j, base.gamma,
                  base.test_starting_states, base.training_starting_states, 30, 3.0, 30, 3.0, base.plot_examples)
    sysm.equations = base.equations
    ctrl = linear(sysm)
    inst = Instance(sysm, ctrl)
    probs = []
    # well-behaved vectors, vectors whose simulation fails at a training case with a finite state (control >= 1e10:
    # j_from_ode gives exactly 1e200) and one that overflows to inf/nan
    xs = [np.array([0.1, -0.2]), np.array([-1.0, 0.5]), np.array([1e200, 1e200]), np.array([0.0, 0.0]),
          np.array([1e13, 1e13]), np.array([-1e13, 1e13])]
    refs = {}

    def model_eq(state, t, control, out):
        out[0] = -state[0]
        out[1] = -state[1] + control[0]
    for cls in (FigureOfMerit, FigureOfMeritLE):
        fresh = lambda: cls(inst, True)
        ref = [fresh().evaluate(x) for x in xs]
        refs[cls.__name__] = ref
        for i, v in enumerate(ref):
            if not (v == 1e200 or 0 <= v <= 1e100):
                probs.append(f"{cls.__name__}: value {v} outside [0,1e100] u {{1e200}}")
        # sequences
        o = fresh()
        got = [o.evaluate(x) for x in xs] + [o.evaluate(x) for x in reversed(xs)]
        if got != ref + list(reversed(ref)):
            probs.append(f"{cls.__name__}: repeated evaluations differ from fresh ones")
        o = fresh()
        o.evaluate(xs[0]); o.evaluate(xs[2]); o.evaluate(xs[1])
        sc, df = o.get_differentials()
        n_before = len(sc)
        if len(sc) != len(df):
            probs.append(f"{cls.__name__}: state+control and differential data differ in length: {len(sc)} vs {len(df)}")
        o.set_model(model_eq)
        vm = o.evaluate(xs[0])
        sc2, df2 = o.get_differentials()
        if len(sc2) != n_before or len(df2) != n_before:
            probs.append(f"{cls.__name__}: training data changed during model-mode evaluation")
        o.set_raw()
        if o.evaluate(xs[1]) != ref[1]:
            probs.append(f"{cls.__name__}: value after set_model/set_raw differs from a fresh objective")
        o.initialize()
        o.evaluate(xs[0])
        sc3, df3 = o.get_differentials()
        f2 = fresh(); f2.evaluate(xs[0]); sc4, df4 = f2.get_differentials()
        if len(sc3) != len(df3) or len(sc3) != len(sc4):
            probs.append(f"{cls.__name__}: after initialize() the recorded data is sc={len(sc3)} df={len(df3)} rows, a fresh objective records {len(sc4)}")
        # model mode with a model that is the system's own equations object, then back: data collection must be on again
        for back in ("set_raw", "initialize"):
            o = fresh()
            o.evaluate(xs[0])
            o.set_model(sysm.equations)
            o.evaluate(xs[1])
            getattr(o, back)()
            o.evaluate(xs[3])
            f3 = fresh(); f3.evaluate(xs[0]) if back == "set_raw" else None; f3.evaluate(xs[3])
            try:
                got_rows = len(o.get_differentials()[0])
            except (ValueError, IndexError) as ex:
                got_rows = f"{type(ex).__name__}"
            exp_rows = len(f3.get_differentials()[0])
            if got_rows != exp_rows:
                probs.append(f"{cls.__name__}: after set_model(system.equations) and {back}() the objective recorded {got_rows} rows, a fresh objective with the same raw evaluations records {exp_rows}")
        # two models in a row (no set_raw in between), then back: later real-system values and data as for a fresh objective

        def model_eq2(state, t, control, out):
            out[0] = -2.0 * state[0] + control[0]
            out[1] = -0.5 * state[1]
        for back in ("set_raw", "initialize"):
            o = fresh()
            o.evaluate(xs[0])
            o.set_model(model_eq)
            o.evaluate(xs[1])
            o.set_model(model_eq2)
            o.evaluate(xs[1])
            getattr(o, back)()
            v = o.evaluate(xs[1])
            if v != ref[1]:
                probs.append(f"{cls.__name__}: after set_model(m1), set_model(m2), {back}() the value of x={xs[1].tolist()} is {v}, a fresh objective returns {ref[1]}")
            f3 = fresh(); f3.evaluate(xs[0]) if back == "set_raw" else None; f3.evaluate(xs[1])
            a, b = o.get_differentials()[0], f3.get_differentials()[0]
            if a.shape != b.shape or not np.array_equal(a, b):
                probs.append(f"{cls.__name__}: after set_model(m1), set_model(m2), {back}() the recorded training data {a.shape} differs from that of a fresh objective with the same raw evaluations {b.shape}")
        o2 = cls(inst, False)
        try:
            o2.set_model(model_eq)
            probs.append(f"{cls.__name__}: set_model accepted without model-mode support")
        except ValueError:
            pass
    # both aggregations are bounded by the largest per-case value, so either variant yields the failure value exactly
    # when some training case leaves [0, 1e100]
    for i, x in enumerate(xs):
        a, b = refs["FigureOfMerit"][i], refs["FigureOfMeritLE"][i]
        if (a == 1e200) != (b == 1e200):
            probs.append(f"x={x.tolist()}: FigureOfMerit gives {a} but FigureOfMeritLE gives {b}: the failure value must be reported by both or by neither")
    return bool(probs), dict(problems=probs[:4])


def job_battery():
    bad, info = battery()
    if bad:
        w = dict(kind="battery", observed=info)
        return violated("pure_function_of_parameters", "dynamic_control/objective.py", f"operation sequences on the real objective: {info}", w, validated=1, paths=1)
    return held(validated=1, paths=12, queries={}, summary="operation sequences on the real FigureOfMerit/FigureOfMeritLE objects agree with fresh objects (concrete)")


def jobs(tier):
    js = [Job("battery", job_battery, {}, "pure_function_of_parameters", 900)]
    for variant in ("plain", "le"):
        js.append(Job(f"seq/{variant}", job_seq, dict(variant=variant), "pure_function_of_parameters", 900))
        for nc in (1, 2, 3) + ((4,) if tier == "thorough" else ()):
            js.append(Job(f"ops/{variant}/cases{nc}", job_ops, dict(variant=variant, ncases=nc), "pure_function_of_parameters", 900))
    return js


def meta(tier):
    return dict(
        bounds=dict(training_cases="1..3 (thorough 4)", abstract_states="model mode supported or not x equations real/model x 0..2 recorded data blocks, arbitrary garbage in the results array",
                    values="per-case figures of merit arbitrary reals (uninterpreted function of case and equations)"),
        outside=["history dependence below the Python level (the np.copy(start.flatten()) remark in the source concerns exactly that)", "the real run_ode/j_from_ode/diff_from_ode (C10)",
                 "SurrogateOptimizer.solve as a whole", "NaN values (reals)"],
        assumptions=["run_ode/j_from_ode/diff_from_ode are functions of (training case, equations, x) - uninterpreted", "log1p/expm1 uninterpreted", "moptipy's Objective.initialize() has no effect on this object"],
        stubs=["object state built directly from the private fields (read from the working tree's constructor layout)", "np.log1p / mean / concatenate shims"])
