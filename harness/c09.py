"""C09 - QAP objective equals the flow-distance sum within its bounds; QAPLIB loader."""
from __future__ import annotations

import itertools
import random
import time

import z3

from symx import core, xform, util, backend
from symx.core import (Engine, SymArray, SymInt, fresh_array, fresh_int, lift, mk, Abort, INT64, DType, AtomStr, atom_of, EngineError)
from symx.runner import Job, held, violated, inconclusive
from . import pack_common as P

PROP = "C09"
UB_LIMIT = 10 ** 15


def s_is_np_int(dt):
    if isinstance(dt, DType):
        return dt.kind in "iu"
    import moptipy.utils.nputils as npu
    return npu.is_np_int(dt)


def s_check_to_int_range(val, what="value", min_value=0, max_value=1_000_000_000):
    """pycommons.types.check_to_int_range: int(val) then range check (re-implemented; atoms map to their integers)"""
    if isinstance(val, str):
        v = atom_of(val)
    else:
        v = core.s_int(val)
    return P.s_check_int_range(v, what, min_value, max_value)


def qap():
    import numpy as np
    import moptipyapps.qap.instance as qi
    import moptipyapps.qap.objective as qo
    ov = core.install_builtins(dict(check_int_range=P.s_check_int_range, int_range_to_dtype=P.s_int_range_to_dtype, is_np_int=s_is_np_int,
                                    check_to_int_range=s_check_to_int_range))
    memo = {}
    init = xform.transform(qi.Instance.__init__, ov, memo, also=("trivial_bounds",))
    ev = xform.transform(qo.QAPObjective.evaluate, ov)
    oinit = xform.transform(qo.QAPObjective.__init__, ov)
    lb = xform.transform(qo.QAPObjective.lower_bound, ov)
    ub = xform.transform(qo.QAPObjective.upper_bound, ov)
    return dict(init=init, evaluate=ev, oinit=oinit, lower=lb, upper=ub, qi=qi, qo=qo, ov=ov)


def make_qap(eng, Q, n, emax, flows_const=None, dist_const=None, in_dtype=None):
    """in_dtype: the integer type of the arrays the CALLER hands to Instance(distances, flows) (default uint64, what the loader builds)"""
    import numpy as np
    U64 = core.dtype_of(np.uint64 if in_dtype is None else np.dtype(in_dtype))
    if dist_const is not None:
        D = core.const_array("D", dist_const, dtype=U64, masq=np.ndarray)
        cons = []
    else:
        D = fresh_array("D", (n, n), dtype=U64, masq=np.ndarray)
        cons = [z3.And(lift(D[i, j]) >= 0, lift(D[i, j]) <= emax) for i in range(n) for j in range(n)]
    if flows_const is None:
        F = fresh_array("F", (n, n), dtype=U64, masq=np.ndarray)
        cons += [z3.And(lift(F[i, j]) >= 0, lift(F[i, j]) <= emax) for i in range(n) for j in range(n)]
    else:
        F = core.const_array("F", flows_const, dtype=U64, masq=np.ndarray)
    eng.assume(z3.And(*cons))
    inst = Q["init"]._shell.__new__(Q["init"]._shell)
    try:
        Q["init"](inst, D, F)
    except (ValueError, TypeError):
        raise Abort("constructor rejects")
    return inst, D, F


def real_qap(D, F, in_dtype=None):
    import numpy as np
    from moptipyapps.qap.instance import Instance
    from moptipyapps.qap.objective import QAPObjective
    dt = np.uint64 if in_dtype is None else np.dtype(in_dtype)
    inst = Instance(np.array(D, dtype=dt), np.array(F, dtype=dt))
    return inst, QAPObjective(inst)


def replay(w):
    import numpy as np
    if w.get("clause") == "loader":
        return replay_loader(w)
    D, F, x = w["D"], w["F"], w["x"]
    n = len(D)
    inst, obj = real_qap(D, F, w.get("in_dtype"))
    val = int(obj.evaluate(np.array(x, dtype=np.int64)))
    exp = sum(F[i][j] * D[x[i]][x[j]] for i in range(n) for j in range(n))
    info = dict(value=val, expected=exp, lower=int(obj.lower_bound()), upper=int(obj.upper_bound()), dtype=str(inst.distances.dtype),
                stored_d=[[int(v) for v in r] for r in inst.distances], stored_f=[[int(v) for v in r] for r in inst.flows])
    bad = (val != exp) or not (info["lower"] <= val <= info["upper"]) or info["stored_d"] != [list(r) for r in D] or info["stored_f"] != [list(r) for r in F]
    return bad, info


def _viol(eng, n, common, flows_const, perms, site="qap/objective.py + qap/instance.py"):
    v = eng.violations[0] if eng.violations else None
    md = eng.ext_model if getattr(eng, "ext_model", None) else {d.name(): v.model[d].as_long() for d in v.model.decls() if z3.is_int_value(v.model[d])}
    label = eng.ext_label if getattr(eng, "ext_model", None) else v.label
    D = [list(map(int, r)) for r in eng.dist_const] if getattr(eng, "dist_const", None) is not None else [[int(md.get(f"D_{i * n + j}", 0)) for j in range(n)] for i in range(n)]
    F = [list(map(int, r)) for r in flows_const] if flows_const is not None else [[int(md.get(f"F_{i * n + j}", 0)) for j in range(n)] for i in range(n)]
    for x in perms:
        w = dict(D=D, F=F, x=list(x), label=label, in_dtype=getattr(eng, "in_dtype", None))
        try:
            bad, info = replay(w)
        except Exception as ex:
            return inconclusive(f"replay raised {type(ex).__name__}: {ex}; {w}", **common)
        if bad:
            w["observed"] = info
            if info["value"] == info["expected"] and info["lower"] <= info["value"] <= info["upper"]:
                return violated("stored_matrices", "qap/instance.py:Instance.__init__/dtype", f"{label}: D={D} F={F} -> stored {info['stored_d']} / {info['stored_f']} as {info['dtype']}",
                                w, validated=1, **common)
            return violated("objective_and_bounds", site, f"{label}: D={D} F={F} x={list(x)} -> {info}", w, validated=1, **common)
    return inconclusive(f"model does not replay ({label}): D={D} F={F}", **common)


def job_exact(n, emax, check_bounds, flows_const=None, timeout_s=900, dist_const=None, in_dtype=None):
    Q = qap()
    perms = list(itertools.permutations(range(n)))
    state = {}

    def ext(eng, cond, label):
        """obligation through the BV/LIA portfolio (products of symbolic entries: the engine's own solver gives up)"""
        bnds = {f"D_{k}": (0, emax) for k in range(n * n)}
        bnds.update({f"F_{k}": (0, emax) for k in range(n * n)})
        r = backend.solve(list(eng.s.assertions()), z3.Not(cond), timeout_s=300, label=label, bounds=bnds)
        state.setdefault("q", []).append(r)
        if r.status == "unknown":
            raise Abort("unknown")
        if r.status == "sat":
            eng.ext_model, eng.ext_label = r.model, label
            raise Abort("violated-ext")
        eng.s.add(cond)

    def h(eng):
        inst, D, F = make_qap(eng, Q, n, emax, flows_const, dist_const, in_dtype)
        eng.pending = [(l, c) for l, c in eng.pending if not l.startswith("value fits dtype")]
        eng.flush()
        ub, lb = lift(inst.upper_bound), lift(inst.lower_bound)
        eng.assume(ub < UB_LIMIT)
        dd, ff = inst.distances, inst.flows
        cs = []
        for i in range(n):
            for j in range(n):
                cs += [lift(dd[i, j]) == lift(D[i, j]), lift(ff[i, j]) == lift(F[i, j]),
                       lift(dd[i, j]) >= dd.dtype.lo, lift(dd[i, j]) <= dd.dtype.hi, lift(ff[i, j]) >= ff.dtype.lo, lift(ff[i, j]) <= ff.dtype.hi]
        ext(eng, z3.And(*cs), "stored matrices equal the given ones and fit the chosen dtype")
        obj = Q["oinit"]._shell.__new__(Q["oinit"]._shell)
        Q["oinit"](obj, inst)
        lo, hi = lift(Q["lower"](obj)), lift(Q["upper"](obj))
        asr = None
        for x in perms:
            val = lift(Q["evaluate"](obj, SymArray(list(x), (n,), name="x", dtype=INT64)))
            eng.flush()
            exp = z3.Sum([lift(F[i, j]) * lift(D[x[i], x[j]]) for i in range(n) for j in range(n)])
            if not z3.is_true(z3.simplify(val == exp, som=True)):
                eng.oblige(val == exp, "objective == sum of flow * distance", now=True)
            if check_bounds:
                if asr is None:
                    asr = list(eng.s.assertions())
                r = backend.solve(asr, z3.Not(z3.And(lo <= val, val <= hi)), timeout_s=300, label=f"bounds n={n} x={x}")
                state.setdefault("q", []).append(r)
                if r.status == "unknown":
                    raise Abort("unknown")
                if r.status == "sat":
                    eng.ext_model, eng.ext_label = r.model, "lower_bound() <= objective <= upper_bound()"
                    raise Abort("violated-ext")
        ext(eng, z3.And(lo == lb, hi == ub, lb >= 0), "objective bounds are the instance bounds")
        return "accepted"
    eng = Engine(timeout_ms=120000, deadline=time.time() + timeout_s)
    eng.dist_const = dist_const
    eng.in_dtype = in_dtype
    ok = eng.explore(h)
    q, st = util.qstats(state.get("q", []))
    common = dict(paths=eng.paths, queries=dict(sat=eng.n_sat + q["sat"], unsat=eng.n_unsat + q["unsat"], unknown=eng.unknown + q["unknown"]),
                  solver_s=round(eng.t_solver + st, 2), vacuity=dict(outcomes=eng.outcomes, aborts=eng.aborts))
    if eng.violations or getattr(eng, "ext_model", None):
        return _viol(eng, n, common, flows_const, perms)
    if not ok or not eng.outcomes.get("accepted"):
        return inconclusive(f"exploration not conclusive {eng.stats()}", **common)
    return held(summary=f"n={n} entries<={emax} flows={'symbolic' if flows_const is None else 'concrete'} bounds={check_bounds}: {eng.paths} paths, {len(perms)} permutations",
                sample=dict(n=n, emax=emax, flows=flows_const or "symbolic", clauses=["stored==given", "value==sum f*d", "bounds" if check_bounds else "-"]), **common)


def job_kernel(n, timeout_s=600):
    """structural exactness of the compiled kernel's source for all matrices: value == sum f_ij * d_{p(i)p(j)}"""
    import moptipyapps.qap.objective as qo
    ev = xform.transform(qo._evaluate)
    perms = list(itertools.permutations(range(n)))

    def h(eng):
        D = fresh_array("D", (n, n), dtype=INT64)
        F = fresh_array("F", (n, n), dtype=INT64)
        for x in perms:
            val = lift(ev(SymArray(list(x), (n,), name="x", dtype=INT64), D, F))
            eng.flush()
            exp = z3.Sum([lift(F[i, j]) * lift(D[x[i], x[j]]) for i in range(n) for j in range(n)])
            if not z3.is_true(z3.simplify(val == exp, som=True)):
                eng.oblige(val == exp, "objective == sum of flow * distance", now=True)
        return "ok"
    eng = Engine(timeout_ms=120000, deadline=time.time() + timeout_s)
    ok = eng.explore(h)
    common = dict(paths=eng.paths, queries=dict(sat=eng.n_sat, unsat=eng.n_unsat, unknown=eng.unknown), solver_s=round(eng.t_solver, 2))
    if eng.violations:
        v = eng.violations[0]
        md = {d.name(): v.model[d].as_long() for d in v.model.decls() if z3.is_int_value(v.model[d])}
        D = [[abs(int(md.get(f"D_{i * n + j}", 0))) % 1000 for j in range(n)] for i in range(n)]
        F = [[abs(int(md.get(f"F_{i * n + j}", 0))) % 1000 for j in range(n)] for i in range(n)]
        for Dc, Fc in ((D, F), ([[i * n + j + 1 for j in range(n)] for i in range(n)], [[(i + 2) * (j + 3) for j in range(n)] for i in range(n)])):
            for x in perms:
                w = dict(D=Dc, F=Fc, x=list(x), label=v.label)
                bad, info = replay(w)
                if bad:
                    w["observed"] = info
                    return violated("objective_and_bounds", "qap/objective.py:_evaluate", f"{v.label}: D={Dc} F={Fc} x={list(x)} -> {info}", w, validated=1, **common)
        return inconclusive(f"kernel counterexample does not replay: {md}", **common)
    if not ok:
        return inconclusive(f"not conclusive {eng.stats()}", **common)
    return held(summary=f"kernel n={n}: value == sum f*d for all matrices, {len(perms)} permutations (term-level identity)", sample=dict(n=n, perms=len(perms)), **common)


# ------------------------------------------------------------------ loader
class _Recorder:
    """stands in for qap.Instance inside from_qaplib_stream: records the constructor arguments"""

    def __init__(self, distances, flows, lower_bound=None, upper_bound=None, name=None):
        self.distances, self.flows = distances, flows


def loader():
    import moptipyapps.qap.instance as qi
    ov = core.install_builtins(dict(check_to_int_range=s_check_to_int_range, check_int_range=P.s_check_int_range, Instance=_Recorder))
    return xform.transform(qi.Instance.from_qaplib_stream, ov, also=("_flow_or_dist_to_int",)), qi


def replay_loader(w):
    from moptipyapps.qap.instance import Instance
    lines = w["lines"]
    n = w["n"]
    try:
        inst = Instance.from_qaplib_stream(lines)
    except ValueError as e:
        return True, dict(raised=str(e)[:160])
    nums = [int(t) for ln in lines[1:] for t in ln.split()]
    F = [[nums[i * n + j] for j in range(n)] for i in range(n)]
    D = [[nums[n * n + i * n + j] for j in range(n)] for i in range(n)]
    got_f = [[int(v) for v in r] for r in inst.flows]
    got_d = [[int(v) for v in r] for r in inst.distances]
    return (inst.n != n or got_f != F or got_d != D), dict(n=inst.n, flows=got_f, distances=got_d)


def job_loader(n, max_paths, seed, blank_lines=True):
    """QAPLIB text with symbolic numbers; the wrapping into lines is decided by forking at every token boundary"""
    ld, qi = loader()
    total = 2 * n * n
    rnd = random.Random(seed)
    state = {}

    def h(eng):
        vals = [fresh_int(f"v{k}") for k in range(total)]
        eng.assume(z3.And(*[z3.And(v.e >= 0, v.e <= 10 ** 15) for v in vals]))
        toks = [AtomStr(v) for v in vals]
        lines = [str(n)]
        cur = [toks[0]]
        brk = []
        for k in range(1, total):
            b = core.SymBool(z3.Bool(f"brk{k}"))
            if b:          # forks: line break before token k
                lines.append(" ".join(cur))
                if blank_lines and k % 3 == 0:
                    lines.append("")
                cur = [toks[k]]
                brk.append(1)
            else:
                cur.append(toks[k])
                brk.append(0)
        lines.append(" ".join(cur))
        state["last"] = (lines, brk)
        try:
            inst = ld(iter([ln + "\n" for ln in lines]))
        except ValueError as e:
            eng.oblige(False, "loader accepts every wrapping of a well-formed file: " + str(e)[:80], now=True)
            return "raised"
        F, D = inst.flows, inst.distances
        cs = []
        for i in range(n):
            for j in range(n):
                cs.append(lift(F[i, j]) == vals[i * n + j].e)
                cs.append(lift(D[i, j]) == vals[n * n + i * n + j].e)
        eng.oblige(z3.And(*cs), "flows first, distances second, row-major", now=True)
        return "loaded"
    eng = Engine(timeout_ms=60000, max_paths=max_paths)
    ok = eng.explore(h)
    common = dict(paths=eng.paths, queries=dict(sat=eng.n_sat, unsat=eng.n_unsat, unknown=eng.unknown), solver_s=round(eng.t_solver, 2),
                  vacuity=dict(outcomes=eng.outcomes))
    if eng.violations:
        v = eng.violations[0]
        md = {d.name(): v.model[d] for d in v.model.decls()}
        vals = [md[f"v{k}"].as_long() if f"v{k}" in md else k + 1 for k in range(total)]
        vals = [k + 1 for k in range(total)]       # structure matters, not the values: distinct numbers
        lines = [str(n)]
        cur = [str(vals[0])]
        for k in range(1, total):
            b = md.get(f"brk{k}")
            if b is not None and z3.is_true(b):
                lines.append(" ".join(cur))
                cur = [str(vals[k])]
            else:
                cur.append(str(vals[k]))
        lines.append(" ".join(cur))
        w = dict(clause="loader", n=n, lines=lines, label=v.label)
        bad, info = replay_loader(w)
        w["observed"] = info
        if bad:
            straddle = any(len(ln.split()) > 0 and _straddles(lines, n, idx) for idx, ln in enumerate(lines))
            site = "qap/instance.py:from_qaplib_stream/line-straddles-matrices" if straddle else "qap/instance.py:from_qaplib_stream"
            return violated("loader", site, f"QAPLIB text {lines} -> {info}", w, validated=1, **common)
        return inconclusive(f"model does not replay: {w}", **common)
    exhaustive = eng.exhausted
    if not eng.outcomes.get("loaded"):
        return inconclusive(f"vacuous: {eng.stats()}", **common)
    return held(summary=f"loader n={n}: {eng.paths} wrappings ({'all' if exhaustive else 'budgeted subset'}), symbolic numbers", exhaustive=exhaustive,
                sample=dict(n=n, example_lines=[str(x) for x in state["last"][0]][:6], outcomes=eng.outcomes), **common)


def _straddles(lines, n, idx):
    cnt = 0
    for k, ln in enumerate(lines[1:], 1):
        t = len(ln.split())
        if cnt < n * n < cnt + t and k == idx:
            return True
        cnt += t
    return False


def job_selftest(seed):
    """concrete cross-check on the real compiled code: objective, bounds, stored matrices, loader"""
    rnd = random.Random(seed)
    cnt = 0
    for _ in range(60):
        n = rnd.randint(1, 5)
        D = [[rnd.choice([0, 1, 5, 130, 70000]) for _ in range(n)] for _ in range(n)]
        F = [[rnd.choice([0, 0, 2, 300]) for _ in range(n)] for _ in range(n)]
        x = list(range(n))
        rnd.shuffle(x)
        w = dict(D=D, F=F, x=x)
        bad, info = replay(w)
        cnt += 1
        if bad:
            w["observed"] = info
            return violated("objective_and_bounds", "qap/objective.py + qap/instance.py", f"concrete instance: {w}", w, validated=cnt, paths=cnt)
        nums = [v for r in F for v in r] + [v for r in D for v in r]
        lines = [str(n)]
        k = 0
        while k < len(nums):
            step = rnd.randint(1, 4)
            lines.append(" ".join(map(str, nums[k:k + step])))
            k += step
        wl = dict(clause="loader", n=n, lines=lines)
        bad, info = replay_loader(wl)
        cnt += 1
        if bad:
            wl["observed"] = info
            return violated("loader", "qap/instance.py:from_qaplib_stream", f"QAPLIB text {lines} -> {info}", wl, validated=cnt, paths=cnt)
    return held(validated=cnt, paths=cnt, queries={}, summary=f"self-test: {cnt} concrete instances / files through the real compiled code agree with the definitions")


def flow_pool(n, seed, count):
    rnd = random.Random(1000 + seed)
    pool = [[[0 if i == j else (i + 2 * j + 1) % 4 for j in range(n)] for i in range(n)],
            [[(3 if (i + j) % 2 else 0) for j in range(n)] for i in range(n)],
            [[0] * n for _ in range(n)]]
    while len(pool) < count:
        pool.append([[rnd.choice([0, 0, 1, 2, 7, 100]) for _ in range(n)] for _ in range(n)])
    return pool[:count]


def jobs(tier):
    import os
    seed = int(os.environ.get("VERIF_SEED", "0") or 0)
    js = [Job("selftest", job_selftest, dict(seed=seed), "selftest", 600)]
    for k, fl in enumerate(flow_pool(2, seed, 4 if tier == "quick" else 12)):
        js.append(Job(f"instance/n2/flows{k}", job_exact, dict(n=2, emax=10 ** 6, check_bounds=True, flows_const=fl), "objective_and_bounds", 900))
        js.append(Job(f"instance/n2/dists{k}", job_exact, dict(n=2, emax=10 ** 6, check_bounds=True, dist_const=fl), "objective_and_bounds", 900))
    # matrices handed over in a narrow integer type by the caller (the loader always builds uint64): entries symbolic in the type's range
    for k, fl in enumerate(flow_pool(2, seed, 2 if tier == "quick" else 6)):
        js.append(Job(f"instance/n2/flows{k}/uint8", job_exact, dict(n=2, emax=255, check_bounds=True, flows_const=fl, in_dtype="uint8"), "objective_and_bounds", 900))
        js.append(Job(f"instance/n2/dists{k}/int16", job_exact, dict(n=2, emax=32767, check_bounds=True, dist_const=fl, in_dtype="int16"), "objective_and_bounds", 900))
    for n in (2, 3, 4) + ((5,) if tier == "thorough" else ()):
        js.append(Job(f"kernel/n{n}", job_kernel, dict(n=n), "objective_and_bounds", 900))
    for k, fl in enumerate(flow_pool(3, seed, 3 if tier == "quick" else 12)):
        js.append(Job(f"instance/n3/flows{k}", job_exact, dict(n=3, emax=1000, check_bounds=True, flows_const=fl, timeout_s=1500), "objective_and_bounds", 1600, weight=5))
        if k >= 2 or tier == "thorough":
            js.append(Job(f"instance/n3/dists{k}", job_exact, dict(n=3, emax=1000, check_bounds=True, dist_const=fl, timeout_s=1500), "objective_and_bounds", 1600, weight=5))
    js.append(Job("loader/n2", job_loader, dict(n=2, max_paths=10 ** 6, seed=seed), "loader", 900))
    js.append(Job("loader/n1", job_loader, dict(n=1, max_paths=10 ** 6, seed=seed), "loader", 300))
    if tier == "thorough":
        js.append(Job("loader/n3-budget", job_loader, dict(n=3, max_paths=20000, seed=seed), "loader", 3000))
    return js


def meta(tier):
    return dict(
        bounds=dict(exact="kernel n<=4 (thorough 5): value == sum for ALL integer matrices, permutations enumerated (term-level identity); instance (real constructor: stored == given, dtype, bounds): one matrix from a seeded concrete pool (incl. all-zero, ties, zero rows), the other symbolic (n=2: 0..10^6, n=3: 0..1000), both roles",
                    bounds="as instance: one concrete, one symbolic matrix, all permutations",
                    input_types="matrices handed to Instance(...) as uint64 (what the loader builds) and, for n=2, as uint8 / int16 arrays with entries over the whole range of the type (numpy array arithmetic in such types wraps: modelled exactly)",
                    loader="n<=2: every wrapping of the 2n^2 numbers into lines (n on its own first line, optional blank lines), numbers symbolic; thorough: budgeted subset for n=3"),
        outside=["instance-level clauses with BOTH matrices symbolic (symbolic x symbolic products + sorting networks: unknown at 300 s even for n=2, DESIGN 3.5)", "digit-level parsing", "files whose first line holds more than n",
                 "float64 accumulation inside the compiled kernel (unsigned dtypes make numba accumulate in float64): exact for sums below 2^53, which upper bound < 10^15 implies"],
        assumptions=["upper bound < 10^15 as in the property", "np.sort -> sorting network, np.multiply/sum element-wise, astype: fits -> unchanged else arbitrary value of the dtype"],
        stubs=["np.ndarray -> SymArray", "int_range_to_dtype symbolic model", "check_int_range / check_to_int_range re-implemented", "loader: Instance replaced by a recorder of its arguments; tokens are atom strings"])
