"""C06 - TSP-specific (1+1) EA and FEA report true tour lengths.

The real `solve` methods run with a stub process: the random generator returns arbitrary (symbolic) values, the
start tour is an arbitrary permutation, the loop runs K iterations; every register(x, y) call observed must hand
over a permutation and its exact tour length.  This drives the move filter and the move kernels together."""
from __future__ import annotations

import random
import time

import z3

from symx import core, xform, util, backend
from symx.core import Engine, SymArray, SparseSymArray, SymInt, fresh_array, fresh_int, lift, mk, Abort, INT64, NPShim
from symx.runner import Job, held, violated, inconclusive
from . import pack_common as P
from . import c05

PROP = "C06"
DMAX = 10 ** 6


class _NP(NPShim):
    """np shim whose zeros() returns a symbolic-length table when the shape is symbolic (the FEA's h)"""

    def zeros(self, shape, dtype=None):
        if isinstance(shape, SymInt):
            t = SparseSymArray("h", shape, init=0)
            TABLES.append(t)
            return t
        return super().zeros(shape, dtype)

    def sort(self, a, axis=-1):
        if not isinstance(a, SymArray):
            return self._np.sort(a, axis=axis)
        if a.ndim == 1:
            return SymArray(core.sort_network(a.cells_list()), a.shape, name="sorted", dtype=a.dtype)
        if a.ndim == 2 and axis in (1, -1):
            rows, cols = a.shape
            flat = a.cells_list()
            out = []
            for r in range(rows):
                row = flat[r * cols:(r + 1) * cols]
                out += row if not any(core.is_sym(v) for v in row) and list(row) == sorted(row) else core.sort_network(row)
            return SymArray(out, a.shape, name="sorted", dtype=a.dtype)
        raise core.EngineError("np.sort along this axis is not modelled")


TABLES = []


def algos():
    import moptipyapps.tsp.ea1p1_revn as ea
    import moptipyapps.tsp.fea1p1_revn as fea
    ov = core.install_builtins(dict(np=_NP()))
    return dict(ea=dict(solve=xform.transform(ea.TSPEA1p1revn.solve, overrides=ov), init=xform.transform(ea.TSPEA1p1revn.__init__, overrides=ov), mod=ea, cls=ea.TSPEA1p1revn),
                fea=dict(solve=xform.transform(fea.TSPFEA1p1revn.solve, overrides=ov), init=xform.transform(fea.TSPFEA1p1revn.__init__, overrides=ov), mod=fea, cls=fea.TSPFEA1p1revn))


def spec_len(G, xs, n):
    return z3.Sum([lift(G.select(xs[k - 1], xs[k])) for k in range(n)])


class StubRandom:
    def __init__(self, eng, n):
        self.eng, self.n, self.k = eng, n, 0
        self.draws = []
        self.blocks = []

    def integers(self, m, size=None):
        if size is not None:
            return self._block(m, size)
        self.k += 1
        v = fresh_int(f"rnd{self.k}")
        self.eng.assume_fast(z3.And(v.e >= 0, v.e < lift(m)))
        self.draws.append(v)
        return v

    def _block(self, m, size):
        """A block of draws (index pairs sampled in advance).  An under-approximation of the generator that makes block BOUNDARIES
        reachable within a few symbolic iterations: in the first block only the last row is symbolic, in later blocks the first two
        rows; every other row is the concrete pair (0, 0), which the solve loops skip as a no-op."""
        shape = (size,) if isinstance(size, int) else tuple(size)
        rows = shape[0]
        cols = 1
        for d in shape[1:]:
            cols *= d
        b = len(self.blocks)
        symbolic = {rows - 1} if b == 0 else {0, 1}
        cells, rec = [], []
        for r in range(rows):
            for c in range(cols):
                if r in symbolic:
                    v = fresh_int(f"blk{b}_{r}_{c}")
                    self.eng.assume_fast(z3.And(v.e >= 0, v.e < lift(m)))
                    cells.append(v)
                    rec.append(f"blk{b}_{r}_{c}")
                else:
                    cells.append(0)
                    rec.append(0)
        self.blocks.append(dict(shape=list(shape), cells=rec))
        return SymArray(cells, shape, name=f"block{b}", dtype=INT64)

    def shuffle(self, x):
        # arbitrary permutation of 0..n-1
        n = self.n
        cells = [fresh_int(f"x0_{k}") for k in range(n)]
        self.eng.assume(z3.And(z3.Distinct(*[c.e for c in cells]), *[z3.And(c.e >= 0, c.e < n) for c in cells]))
        for k in range(n):
            x.cells[x.offset + k * x.strides[0]] = cells[k]


class StubProcess:
    def __init__(self, eng, inst, n, iters):
        self.eng, self.inst, self.n, self.iters = eng, inst, n, iters
        self.rnd = StubRandom(eng, n)
        self.calls = 0
        self.registered = []

    def get_random(self):
        return self.rnd

    def create(self):
        return fresh_array("xc", (self.n,), dtype=INT64)

    def evaluate(self, x):
        xs = [x[k] for k in range(self.n)]
        return mk(spec_len(self.inst.given, xs, self.n))

    def should_terminate(self):
        self.calls += 1
        extra = sum(b["shape"][0] for b in self.rnd.blocks[:1])       # the rows of the first block are (almost all) skipped no-ops
        return self.calls > self.iters + extra

    def register(self, x, y):
        n = self.n
        xs = [x[k] for k in range(n)]
        perm = z3.And(z3.Distinct(*[lift(v) for v in xs]), *[z3.And(lift(v) >= 0, lift(v) < n) for v in xs])
        self.eng.oblige(perm, "registered solution is a permutation")
        self.eng.oblige(lift(y) == spec_len(self.inst.given, xs, n), "registered value is the exact tour length")
        self.registered.append((xs, y))
        return y


def real_run(algo, D, x0, moves):
    """drive the real compiled move kernel through the given moves; returns list of (tour, value, true length)"""
    import numpy as np
    import moptipyapps.tsp.ea1p1_revn as ea
    import moptipyapps.tsp.fea1p1_revn as fea
    from moptipyapps.tsp.instance import Instance
    inst = Instance("t", 0, np.array(D, dtype=np.int64))
    n = len(D)
    x = np.array(x0, dtype=np.int64)
    y = int(sum(D[x0[k - 1]][x0[k]] for k in range(n)))
    ub = int(inst.tour_length_upper_bound)
    out = []
    h = np.zeros(ub + 2 + 4 * max(max(r) for r in D), np.int64)       # generous table: out-of-range addressing is observed, not crashed on
    for (i, j) in moves:
        if i > j:
            i, j = j, i
        if i == j or (i == 0 and j == n - 2):
            continue
        y0 = y
        if algo == "ea":
            y = int(ea.rev_if_not_worse(i, j, n, inst, x, y))
        else:
            y = int(fea.rev_if_h_not_worse(i, j, n, inst, h, x, y))
        xs = [int(v) for v in x]
        out.append(dict(move=[i, j], tour=xs, value=y, true=int(sum(D[xs[k - 1]][xs[k]] for k in range(n))), before=y0, ub=ub))
    return out


def solve_replay(w):
    """the REAL solve() on a stub process whose generator replays the model's draws (scalar draws and pre-sampled blocks); every
    registered pair is compared with the true tour length"""
    import numpy as np
    import moptipyapps.tsp.ea1p1_revn as ea
    import moptipyapps.tsp.fea1p1_revn as fea
    from moptipyapps.tsp.instance import Instance
    D = w["D"]
    n = len(D)
    inst = Instance("t", 0, np.array(D, dtype=np.int64))

    class Stop(Exception):
        pass

    class Proc:
        def __init__(self):
            self.draws = list(w.get("draws") or [v for m_ in w.get("moves", []) for v in m_])
            self.blocks = [np.array(b["cells"], dtype=np.int64).reshape(b["shape"]) for b in w.get("blocks", [])]
            self.calls = 0
            self.reg = []

        def get_random(self):
            return self

        def integers(self, m, size=None):
            if size is not None:
                if self.blocks:
                    return self.blocks.pop(0)
                return np.zeros(size, dtype=np.int64)
            if not self.draws:
                raise Stop()
            return int(self.draws.pop(0)) % max(1, int(m))

        def shuffle(self, x):
            x[:] = np.array(w["x0"], dtype=x.dtype)

        def create(self):
            return np.empty(n, dtype=np.int64)

        def evaluate(self, x):
            return int(sum(D[int(x[k - 1])][int(x[k])] for k in range(n)))

        def register(self, x, y):
            xs = [int(v) for v in x]
            self.reg.append(dict(tour=xs, value=int(y), true=int(sum(D[xs[k - 1]][xs[k]] for k in range(n)))))
            return y

        def should_terminate(self):
            self.calls += 1
            return self.calls > int(w.get("max_calls", 10 ** 4))
    proc = Proc()
    algo = (ea.TSPEA1p1revn if w["algo"] == "ea" else fea.TSPFEA1p1revn)(inst)
    try:
        algo.solve(proc)
    except Stop:
        pass
    bad = False
    prev = None
    for r in proc.reg:
        if sorted(r["tour"]) != list(range(n)) or r["value"] != r["true"]:
            bad = True
        if w["algo"] == "ea" and prev is not None and r["value"] > prev:
            bad = True
        prev = r["value"]
    return bad, dict(registered=proc.reg[-6:], count=len(proc.reg))


def replay(w):
    if w.get("blocks"):
        return solve_replay(w)
    res = real_run(w["algo"], w["D"], w["x0"], w["moves"])
    bad = False
    n = len(w["D"])
    for r in res:
        if sorted(r["tour"]) != list(range(n)) or r["value"] != r["true"]:
            bad = True
        if w["algo"] == "ea" and r["value"] > r["before"]:
            bad = True
        if w["algo"] == "fea" and not (0 <= r["value"] <= r["ub"] and 0 <= r["before"] <= r["ub"]):
            bad = True
    if w.get("table_clause"):
        # the table allocated by the real solve(): run it on a real process and see whether an index >= len(h) is addressed
        bad = bad or table_replay(w)
    return bad, dict(steps=res)


def table_replay(w):
    """FEA table addressing: run the real solve() with NUMBA_DISABLE_JIT-free kernels but a checking h via py_func"""
    import numpy as np
    import moptipyapps.tsp.fea1p1_revn as fea
    from moptipyapps.tsp.instance import Instance
    D = w["D"]
    n = len(D)
    inst = Instance("t", 0, np.array(D, dtype=np.int64))

    class Stop(Exception):
        pass

    class Proc:
        def __init__(self):
            self.moves = [v for m in w["moves"] for v in m]
            self.k = 0

        def get_random(self):
            return self

        def integers(self, m):
            if self.k >= len(self.moves):
                raise Stop()
            v = self.moves[self.k]
            self.k += 1
            return v

        def shuffle(self, x):
            x[:] = w["x0"]

        def create(self):
            return np.zeros(n, np.int64)

        def evaluate(self, x):
            return int(sum(D[int(x[k - 1])][int(x[k])] for k in range(n)))

        def should_terminate(self):
            return self.k >= len(self.moves)

        def register(self, x, y):
            pass
    orig = fea.rev_if_h_not_worse
    fea.rev_if_h_not_worse = orig.py_func          # python semantics: out-of-range table access raises IndexError
    try:
        fea.TSPFEA1p1revn(inst).solve(Proc())
        return False
    except IndexError:
        return True
    except Stop:
        return False
    finally:
        fea.rev_if_h_not_worse = orig


def loop_carried(cls):
    """names that `solve` assigns both before and inside its main loop: the state an iteration hands to the next one (besides the
    arrays it updates in place).  The bounded runs from an ARBITRARY start tour extend to runs of any length only if this is just the
    running tour length."""
    import ast
    fd, _ = xform.parse_fn(cls.solve)
    body = xform.body_wo_doc(fd)
    loops = [k for k, st in enumerate(body) if isinstance(st, (ast.While, ast.For))]
    if not loops:
        return None
    k = loops[-1]

    def stored(stmts):
        return {n_.id for st in stmts for n_ in ast.walk(st) if isinstance(n_, ast.Name) and isinstance(n_.ctx, ast.Store)}
    return sorted(stored(body[:k]) & stored(body[k].body))


def job_loop(algo, n, iters, timeout_s=900, dmax=DMAX):
    A = algos()[algo]
    state = {}
    carried = loop_carried(A["cls"])
    no_induction = carried is None or len(carried) != 1

    def h(eng):
        del TABLES[:]
        inst = c05.make_tsp(eng, n, symmetric=True, dmax=dmax)
        eng.pending = []
        obj = A["init"]._shell.__new__(A["init"]._shell)
        A["init"](obj, inst)
        proc = StubProcess(eng, inst, n, iters)
        state["proc"] = proc
        state["inst"] = inst
        A["solve"](obj, proc)
        # EA: never worse
        if algo == "ea":
            ys = [lift(y) for _, y in proc.registered]
            for a, b in zip(ys, ys[1:]):
                eng.oblige(b <= a, "EA never accepts a longer tour")
        if algo == "fea":
            ub = lift(inst.tour_length_upper_bound)
            for t in TABLES:
                for k in t.accesses:
                    eng.oblige(z3.And(k >= 0, k <= ub), "FEA table index within 0..upper bound")
        eng.flush()
        return f"registered{len(proc.registered)}"
    eng = Engine(timeout_ms=120000, deadline=time.time() + timeout_s)
    ok = eng.explore(h)
    common = dict(paths=eng.paths, queries=dict(sat=eng.n_sat, unsat=eng.n_unsat, unknown=eng.unknown), solver_s=round(eng.t_solver, 2),
                  vacuity=dict(outcomes=eng.outcomes, aborts=eng.aborts))
    if eng.violations:
        v = eng.violations[0]
        md = {d.name(): v.model[d].as_long() for d in v.model.decls() if z3.is_int_value(v.model[d])}
        D = [[md.get(f"d_{i * n + j}", 0) for j in range(n)] for i in range(n)]
        for i in range(n):
            for j in range(i):
                D[j][i] = D[i][j]
        x0 = [md.get(f"x0_{k}", k) for k in range(n)]
        draws = [md.get(f"rnd{k}", 0) for k in range(1, 2 * iters + 3)]
        moves = [[draws[2 * k], draws[2 * k + 1]] for k in range(len(draws) // 2)]
        w = dict(algo=algo, D=D, x0=x0, moves=moves, label=v.label, table_clause=("index in range: h" in v.label or "table index" in v.label))
        blocks = getattr(state.get("proc"), "rnd", None).blocks if state.get("proc") is not None else []
        if blocks:
            w["blocks"] = [dict(shape=b["shape"], cells=[(md.get(c, 0) if isinstance(c, str) else c) for c in b["cells"]]) for b in blocks]
            w["draws"] = draws
            w["max_calls"] = state["proc"].calls
        try:
            bad, info = replay(w)
        except Exception as ex:
            return inconclusive(f"replay raised {type(ex).__name__}: {ex}; {w}", **common)
        w["observed"] = info
        if bad:
            return violated("registered_pairs_exact", f"tsp/{'ea1p1_revn' if algo == 'ea' else 'fea1p1_revn'}.py",
                            f"{algo}: {v.label}: D={D} start={x0} moves={moves} -> {info}", w, validated=1, **common)
        return inconclusive(f"model does not replay ({v.label}): {w}", **common)
    reg = sum(v for k, v in eng.outcomes.items() if str(k).startswith("registered") and str(k) != "registered0")
    if not ok or not reg:
        return inconclusive(f"exploration not conclusive {eng.stats()}", **common)
    if no_induction:
        return inconclusive(f"solve() of {A['cls'].__name__} carries {carried} from one iteration to the next: the {iters} symbolic iterations explored (across the first "
                            "block boundary of pre-sampled draws, if any) show no violation, but they do not extend to longer runs when there is loop state besides "
                            "the running tour length - nothing is claimed for this shape of the code", **common)
    return held(summary=f"{algo} n={n} iterations={iters}: {eng.paths} paths {eng.outcomes}",
                sample=dict(algo=algo, n=n, iterations=iters, start="arbitrary permutation", moves="arbitrary draws of integers(n-1)"), **common)


def job_selftest(seed):
    rnd = random.Random(seed)
    cnt = 0
    for algo in ("ea", "fea"):
        for _ in range(40):
            n = rnd.randint(3, 7)
            D = [[0] * n for _ in range(n)]
            for i in range(n):
                for j in range(i):
                    D[i][j] = D[j][i] = rnd.randint(1, 50)
            x0 = list(range(n))
            rnd.shuffle(x0)
            moves = [[rnd.randrange(n - 1), rnd.randrange(n - 1)] for _ in range(12)]
            w = dict(algo=algo, D=D, x0=x0, moves=moves)
            bad, info = replay(w)
            cnt += 1
            if bad:
                w["observed"] = info
                return violated("registered_pairs_exact", f"tsp/{algo}", f"concrete run: {w}", w, validated=cnt, paths=cnt)
    return held(validated=cnt, paths=cnt, queries={}, summary=f"self-test: {cnt} concrete move sequences on the compiled kernels keep tour and length consistent")


def jobs(tier):
    import os
    seed = int(os.environ.get("VERIF_SEED", "0") or 0)
    js = [Job("selftest", job_selftest, dict(seed=seed), "selftest", 600)]
    cfg = [(4, 2), (4, 3), (5, 2), (6, 1)] + ([(5, 3), (6, 2), (4, 4)] if tier == "thorough" else [])     # (7, 1) measured: solver unknown at 120 s per query - not claimed
    for algo in ("ea", "fea"):
        for n, it in cfg:
            js.append(Job(f"loop/{algo}/n{n}/k{it}", job_loop, dict(algo=algo, n=n, iters=it, timeout_s=1200 if tier == "quick" else 3300),
                          "registered_pairs_exact", 1300 if tier == "quick" else 3500, weight=n * it))
    return js


def meta(tier):
    return dict(
        bounds=dict(cities="4..6 (seven cities ended in solver timeouts when measured)", iterations="1-3 loop iterations from an arbitrary start permutation (thorough 4)",
                    matrix=f"symmetric, symbolic entries 0..{DMAX}, accepted by the real constructor",
                    random="integers() returns any value in its range; shuffle() any permutation; integers(size=...) (draws sampled in blocks): only the rows at the block "
                           "boundary are symbolic (last row of the first block, first two rows of later ones), the rest is the no-op pair (0, 0) - an under-approximation used to reach refills"),
        outside=["asymmetric instances (the algorithms are documented for symmetric ones)", "more cities / longer runs: the invariant 'y is the length of x, x is a permutation' "
                 "re-established by each iteration from an arbitrary permutation covers runs of any length by induction"],
        assumptions=["the start state of an iteration is any (permutation, exact length) pair: that is what process.evaluate returns for the start tour and what the step re-establishes",
                     "FEA frequency table modelled as a z3 array of symbolic length (the length the real code allocates)"],
        stubs=["Process: get_random/create/evaluate/should_terminate/register stubs (register checks the pair)", "Generator.integers / shuffle nondeterministic",
               "np.zeros(symbolic) -> symbolic-length table", "Instance via the real tsp constructor (C05)"])
