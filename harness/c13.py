"""C13 - compiled kernels never access memory outside their arrays.

Every SymArray access made while the real kernel source runs symbolically carries the obligation
-len <= index < len.  Each case drives one kernel with the widest input its public space accepts and asks
the solver for an input that breaks one of the obligations; a model is replayed through the public API in
a fresh interpreter with NUMBA_BOUNDSCHECK=1 (IndexError = confirmed)."""
from __future__ import annotations

import json
import os
import shutil
import tempfile
import time

import z3

from symx import backend, util, xform, core
from symx.core import SymArray, fresh_array, fresh_int, lift, mk
from symx.runner import Job, held, violated, inconclusive, ROOT
from . import ttp_common as T

PROP = "C13"


def boundscheck_replay(code, payload):
    """run `code` (which reads json from argv[1]) under NUMBA_BOUNDSCHECK=1 with an empty numba cache"""
    os.makedirs(os.path.join(ROOT, ".cache"), exist_ok=True)
    cache = tempfile.mkdtemp(prefix="nbc_", dir=os.path.join(ROOT, ".cache"))
    try:
        rc, out, err = _run(code, payload, cache)
    finally:
        shutil.rmtree(cache, ignore_errors=True)
    return rc, out, err


def _run(code, payload, cache):
    import subprocess
    e = dict(os.environ)
    e.update(NUMBA_BOUNDSCHECK="1", NUMBA_CACHE_DIR=cache)
    py = os.path.join(ROOT, ".venv", "bin", "python")
    p = subprocess.run([py, "-c", "import sys, json\nW = json.loads(sys.argv[1])\n" + code, json.dumps(payload)],
                       capture_output=True, text=True, env=e, timeout=900)
    return p.returncode, p.stdout, p.stderr


REPLAY_TTP_ERRORS = '''
import numpy as np
from moptipyapps.ttp.instance import Instance
from moptipyapps.ttp.errors import Errors
from moptipyapps.ttp.game_plan_space import GamePlanSpace
n, rounds = W["n"], W["rounds"]
D = np.array([[0 if a == b else 1 + a + b for b in range(n)] for a in range(n)])
inst = Instance("x", D, [f"t{i}" for i in range(n)], rounds, *W["settings"])
space = GamePlanSpace(inst)
y = space.create()
np.copyto(y, np.array(W["plan"]), casting="unsafe")
space.validate(y)          # the public space accepts the plan
try:
    print("VALUE", Errors(inst).evaluate(y))
except IndexError as ex:
    print("INDEXERROR", ex)
'''

REPLAY_TTP_LENGTH = '''
import numpy as np
from moptipyapps.ttp.instance import Instance
from moptipyapps.ttp.plan_length import GamePlanLength
from moptipyapps.ttp.game_plan_space import GamePlanSpace
n, rounds = W["n"], W["rounds"]
D = np.array([[0 if a == b else 1 + a + b for b in range(n)] for a in range(n)])
inst = Instance("x", D, [f"t{i}" for i in range(n)], rounds, 1, 3, 1, 3, 1, rounds * n - 1)
space = GamePlanSpace(inst)
y = space.create()
np.copyto(y, np.array(W["plan"]), casting="unsafe")
space.validate(y)
try:
    print("VALUE", GamePlanLength(inst).evaluate(y))
except IndexError as ex:
    print("INDEXERROR", ex)
'''

REPLAY_MAP_GAMES = '''
import numpy as np
from moptipyapps.ttp.instance import Instance
from moptipyapps.ttp.game_encoding import GameEncoding
from moptipyapps.ttp.game_plan_space import GamePlanSpace
n, rounds = W["n"], W["rounds"]
D = np.array([[0 if a == b else 1 + a + b for b in range(n)] for a in range(n)])
inst = Instance("x", D, [f"t{i}" for i in range(n)], rounds, 1, 3, 1, 3, 1, rounds * n - 1)
enc = GameEncoding(inst)
ss = enc.search_space()
x = ss.create()
np.copyto(x, np.array(W["x"]), casting="unsafe")
ss.validate(x)
y = GamePlanSpace(inst).create()
try:
    enc.decode(x, y)
    print("VALUE ok")
except IndexError as ex:
    print("INDEXERROR", ex)
'''


def _finish(case, cons, collected, eng_paths, witness_of, code, site, extra_sample=None, timeout_s=300):
    inr = [(l, c) for l, c in collected if l.startswith("index in range")]
    labels = sorted({l for l, _ in inr})
    if not inr:
        return inconclusive(f"{case}: no array access was recorded (harness does not reach the kernel)")
    goal = z3.Not(z3.And(*[c for _, c in inr]))
    r = backend.solve(cons, goal, timeout_s=timeout_s, label=f"c13 {case}")
    tw = backend.solve(cons, None, timeout_s=60, label="twin")
    q, st = util.qstats([r, tw])
    common = dict(paths=eng_paths, queries=q, solver_s=st, backend=repr(r), vacuity=dict(domain_sat=tw.status, accesses=len(inr)),
                  summary=f"{case}: {len(inr)} array accesses ({len(labels)} sites), out-of-range input: {r.status} ({r.backend} {r.seconds:.1f}s)",
                  sample=dict(case=case, accesses=len(inr), sites=labels[:12], answer=r.status, **(extra_sample or {})))
    if tw.status != "sat":
        return inconclusive("vacuity twin not sat", **common)
    if r.status == "unsat":
        return held(**common)
    if r.status == "unknown":
        return inconclusive("solver unknown " + r.detail, **common)
    w = witness_of(r.model)
    w["case"] = case
    w["replay_code"] = code
    rc, out, err = boundscheck_replay(code, w)
    w["observed"] = (out + err)[-600:]
    if "INDEXERROR" in out:
        return violated("index_in_range", site, f"{case}: out-of-bounds access under NUMBA_BOUNDSCHECK=1: {out.strip()[:200]} input={ {k: v for k, v in w.items() if k not in ('replay_code', 'observed')} }",
                        w, validated=1, **common)
    return inconclusive(f"{case}: model does not replay as IndexError (rc={rc}): {w['observed'][-300:]}", **common)


def replay(w):
    rc, out, err = boundscheck_replay(w["replay_code"], w)
    return "INDEXERROR" in out, dict(stdout=out[-400:], stderr=err[-400:])


# ------------------------------------------------------------------ TTP
def job_count_errors(n, rounds, settings):
    from moptipy.utils.nputils import int_range_to_dtype
    tdt = core.dtype_of(int_range_to_dtype(-1, (n - 1) * rounds))
    box = T.encode_count_errors(n, rounds, settings, temp_dtype=tdt)
    days = box.days
    return _finish(f"count_errors n={n} rounds={rounds} settings={settings}", list(box.cons), box.collected, 1,
                   lambda m: dict(plan=T.plan_from_model(m, n, days).tolist(), n=n, rounds=rounds,
                                  settings=list(T.settings_from_model(m, settings))),
                   REPLAY_TTP_ERRORS, "ttp/errors.py:count_errors/temp_1")


def job_plan_length(n, rounds):
    from . import c08
    gl, init, ubf, lbf, Instance = c08._kernels()
    days = (n - 1) * rounds

    def h(eng):
        y = fresh_array("y", (days, n))
        D, cons = c08.sym_distances(n)
        gl(y, D, fresh_int("pen"))
        return util.Box(y=y, cons=cons)
    eng, b = util.single_path(h)
    Y = [[lift(b.y[d, t]) for t in range(n)] for d in range(days)]
    return _finish(f"game_plan_length n={n} rounds={rounds}", b.cons + T.plan_domain(Y, n, days), eng.collected, 1,
                   lambda m: dict(plan=T.plan_from_model(m, n, days).tolist(), n=n, rounds=rounds),
                   REPLAY_TTP_LENGTH, "ttp/plan_length.py:game_plan_length")


def job_map_games(n, rounds):
    """one game from an arbitrary plan (entries -n..n) and an arbitrary game code of the blueprint range"""
    import moptipyapps.ttp.game_encoding as ge
    mg = xform.transform(ge.map_games)
    days = (n - 1) * rounds
    bp = [int(v) for v in ge.search_space_for_n_and_rounds(n, rounds).blueprint]
    lo, hi = min(bp), max(bp)

    class NoFill(SymArray):
        def fill(self, v):
            pass

    def h(eng):
        x = fresh_array("x", (1,))
        y0 = fresh_array("y", (days, n))
        y = NoFill(list(y0.cells), (days, n), name="y")
        mg(x, y)
        return util.Box(x=x, y0=y0)
    eng, b = util.single_path(h)
    Y = [[lift(b.y0[d, t]) for t in range(n)] for d in range(days)]
    cons = T.plan_domain(Y, n, days) + [lift(b.x[0]) >= lo, lift(b.x[0]) <= hi]

    def wit(m):
        g = int(m.get("x_0", lo))
        xs = sorted(bp)
        # a permutation of the blueprint that starts with the offending game code (if it occurs)
        if g in xs:
            xs.remove(g)
            xs = [g] + xs
        return dict(x=xs, n=n, rounds=rounds, game=g)
    return _finish(f"map_games n={n} rounds={rounds} game codes {lo}..{hi}", cons, eng.collected, 1, wit,
                   REPLAY_MAP_GAMES, "ttp/game_encoding.py:map_games")


# ------------------------------------------------------------------ bin packing objectives
REPLAY_OBJECTIVE = '''
import numpy as np
from moptipyapps.binpacking2d.instance import Instance
from moptipyapps.binpacking2d.packing import Packing
from moptipyapps.binpacking2d.packing_space import PackingSpace
import importlib
mod = importlib.import_module("moptipyapps.binpacking2d.objectives." + W["module"])
inst = Instance("i", W["W"], W["H"], W["items"])
y = Packing(inst)
np.copyto(y, np.array(W["rows"]), casting="unsafe")
y.n_bins = max(r[1] for r in W["rows"])
PackingSpace(inst).validate(y)         # the public space accepts the packing
try:
    print("VALUE", getattr(mod, W["objective"])(inst).evaluate(y))
except IndexError as ex:
    print("INDEXERROR", ex)
'''


def job_objective(name, reps):
    """index obligations of an objective kernel on every feasible packing (all sizes; every item in its own bin included)"""
    from . import c02, pack_common as P
    from symx.core import Engine
    from moptipyapps.binpacking2d.packing import Packing
    cls, M = c02.load(name)
    n = sum(reps)
    modname = cls.__module__.split(".")[-1]

    def h(eng):
        inst = P.make_instance(eng, reps)
        W, H = inst.W.e, inst.H.e
        y = fresh_array("y", (n, 6), dtype=inst.dtype, masq=Packing)
        y.instance = inst
        X = P.rows_of(y, n)
        k = z3.Int("k")
        eng.assume(z3.And(core.in_dtype(y), P.feasible(X, inst, W, H, k)))
        inst.lower_bound_bins = 1
        obj = M["__init__"]._shell.__new__(M["__init__"]._shell) if hasattr(M["__init__"], "_shell") else cls.__new__(cls)
        M["__init__"](obj, inst)
        M["evaluate"](obj, y)
        pend = [(l, c) for l, c in eng.pending if l.startswith("index in range")]
        eng.pending = []
        eng.n_access = core.ACCESSES
        for l, c in pend:
            eng.oblige(c, l, now=True)
        return "evaluated"
    eng = Engine(timeout_ms=60000)
    eng.prefer = P.small_witness_prefs(len(reps))
    ok = eng.explore(h)
    common = dict(paths=eng.paths, queries=dict(sat=eng.n_sat, unsat=eng.n_unsat, unknown=eng.unknown), solver_s=round(eng.t_solver, 2),
                  vacuity=dict(accesses=getattr(eng, "n_access", 0), outcomes=eng.outcomes))
    if eng.violations:
        v = eng.violations[0]
        md = {d.name(): v.model[d].as_long() for d in v.model.decls() if z3.is_int_value(v.model[d])}
        Wv, Hv, items = P.model_instance(md, reps)
        rows = [[int(md.get(f"y_{i * 6 + c}", 0)) for c in range(6)] for i in range(n)]
        w = dict(objective=name, module=modname, W=Wv, H=Hv, items=[list(i) for i in items], rows=rows, label=v.label, case=f"objective {name}",
                 replay_code=REPLAY_OBJECTIVE)
        rc, out, err = boundscheck_replay(REPLAY_OBJECTIVE, w)
        w["observed"] = (out + err)[-500:]
        if "INDEXERROR" in out:
            return violated("index_in_range", f"binpacking2d/objectives/{modname}.py", f"{name}: out-of-bounds access under NUMBA_BOUNDSCHECK=1 for bin {Wv}x{Hv} items {items} rows {rows}: {out.strip()[:150]}",
                            w, validated=1, **common)
        return inconclusive(f"{name}: '{v.label}' fails symbolically but does not replay as IndexError (rc={rc}): {w['observed'][-300:]}", **common)
    if not ok or not eng.outcomes.get("evaluated") or not getattr(eng, "n_access", 0):
        return inconclusive(f"{name}: exploration not conclusive {eng.stats()}", **common)
    return held(summary=f"objective {name} reps={reps}: {eng.paths} paths, {eng.n_access} array accesses in range",
                sample=dict(case=f"objective {name}", reps=reps, accesses=eng.n_access), **common)


# ------------------------------------------------------------------ decoders
REPLAY_DECODER = '''
import numpy as np
from moptipyapps.binpacking2d.instance import Instance
from moptipyapps.binpacking2d.packing import Packing
if W["enc"] == 1:
    from moptipyapps.binpacking2d.encodings.ibl_encoding_1 import ImprovedBottomLeftEncoding1 as E
else:
    from moptipyapps.binpacking2d.encodings.ibl_encoding_2 import ImprovedBottomLeftEncoding2 as E
inst = Instance("i", W["W"], W["H"], W["items"])
e = E(inst)
y = Packing(inst)
y.fill(min(77, int(np.iinfo(y.dtype).max)))
try:
    e.decode(np.array(W["x"], dtype=np.int64), y)
    print("VALUE", int(y.n_bins))
except IndexError as ex:
    print("INDEXERROR", ex)
'''


def job_decoder(enc, reps):
    """index obligations of a whole decoder run (public API, garbage destination) for every signed permutation"""
    from . import c01, pack_common as P
    from symx.core import Engine
    E = c01.encoders()
    n = sum(reps)
    tot = dict(paths=0, sat=0, unsat=0, unknown=0, solver=0.0)
    acc0 = core.ACCESSES
    xs = list(P.signed_perms(reps))
    for x in xs:
        def h(eng):
            inst = P.make_instance(eng, reps)
            c01.run_decode(eng, enc, E, inst, x)
            pend = [(l, c) for l, c in eng.pending if l.startswith("index in range")]
            eng.pending = []
            for l, c in pend:
                eng.oblige(c, l, now=True)
            return "decoded"
        eng = Engine(timeout_ms=60000)
        eng.prefer = P.small_witness_prefs(len(reps))
        ok = eng.explore(h)
        for k, v in (("paths", eng.paths), ("sat", eng.n_sat), ("unsat", eng.n_unsat), ("unknown", eng.unknown), ("solver", eng.t_solver)):
            tot[k] += v
        common = dict(paths=tot["paths"], queries=dict(sat=tot["sat"], unsat=tot["unsat"], unknown=tot["unknown"]), solver_s=round(tot["solver"], 2),
                      vacuity=dict(accesses=core.ACCESSES - acc0))
        if eng.violations:
            v = eng.violations[0]
            md = {d.name(): v.model[d].as_long() for d in v.model.decls() if z3.is_int_value(v.model[d])}
            Wv, Hv, items = P.model_instance(md, reps)
            w = dict(enc=enc, W=Wv, H=Hv, items=[list(i) for i in items], x=list(x), label=v.label, case=f"decoder {enc}", replay_code=REPLAY_DECODER)
            rc, out, err = boundscheck_replay(REPLAY_DECODER, w)
            w["observed"] = (out + err)[-500:]
            if "INDEXERROR" in out:
                return violated("index_in_range", f"binpacking2d/encodings/ibl_encoding_{enc}.py", f"decoder {enc}: out-of-bounds access under NUMBA_BOUNDSCHECK=1: bin {Wv}x{Hv} items {items} x={list(x)}",
                                w, validated=1, **common)
            return inconclusive(f"decoder {enc}: '{v.label}' fails symbolically but does not replay as IndexError (rc={rc}): {w['observed'][-200:]}", **common)
        if not ok or not eng.outcomes.get("decoded"):
            return inconclusive(f"decoder {enc}: exploration not conclusive {eng.stats()}", **common)
    return held(summary=f"decoder {enc} reps={reps}: {len(xs)} signed permutations, {tot['paths']} paths, {core.ACCESSES - acc0} array accesses in range",
                sample=dict(case=f"decoder {enc}", reps=reps, accesses=core.ACCESSES - acc0), **common)


# ------------------------------------------------------------------ TSP / QAP / order1d kernels
REPLAY_TOUR = '''
import numpy as np
from moptipyapps.tsp.instance import Instance
from moptipyapps.tsp.tour_length import TourLength
inst = Instance("t", 0, np.array(W["D"], dtype=np.int64))
try:
    print("VALUE", TourLength(inst).evaluate(np.array(W["x"], dtype=np.int64)))
except IndexError as ex:
    print("INDEXERROR", ex)
'''

REPLAY_QAP = '''
import numpy as np
from moptipyapps.qap.instance import Instance
from moptipyapps.qap.objective import QAPObjective
n = W["n"]
D = np.array([[abs(i - j) for j in range(n)] for i in range(n)], dtype=np.uint64)
F = np.array([[(i + 2 * j) % 5 for j in range(n)] for i in range(n)], dtype=np.uint64)
try:
    print("VALUE", QAPObjective(Instance(D, F)).evaluate(np.array(W["x"], dtype=np.int64)))
except IndexError as ex:
    print("INDEXERROR", ex)
'''

REPLAY_SWAP = '''
import numpy as np
from moptipyapps.order1d.distances import swap_distance
try:
    print("VALUE", swap_distance(np.array(W["p1"], dtype=np.int64), np.array(W["p2"], dtype=np.int64)))
except IndexError as ex:
    print("INDEXERROR", ex)
'''


def _perm(eng, name, n):
    from symx.core import INT64
    p = fresh_array(name, (n,), dtype=INT64)
    eng.assume(z3.And(z3.Distinct(*[lift(p[k]) for k in range(n)]), *[z3.And(lift(p[k]) >= 0, lift(p[k]) < n) for k in range(n)]))
    return p


def _explore_index(fn, case, site, wit, code, timeout_ms=60000):
    from symx.core import Engine
    acc0 = core.ACCESSES

    def h(eng):
        fn(eng)
        pend = [(l, c) for l, c in eng.pending if l.startswith("index in range")]
        eng.pending = []
        for l, c in pend:
            eng.oblige(c, l, now=True)
        return "ran"
    eng = Engine(timeout_ms=timeout_ms)
    ok = eng.explore(h)
    common = dict(paths=eng.paths, queries=dict(sat=eng.n_sat, unsat=eng.n_unsat, unknown=eng.unknown), solver_s=round(eng.t_solver, 2),
                  vacuity=dict(accesses=core.ACCESSES - acc0))
    if eng.violations:
        v = eng.violations[0]
        md = {d.name(): v.model[d].as_long() for d in v.model.decls() if z3.is_int_value(v.model[d])}
        w = wit(md)
        w.update(case=case, label=v.label, replay_code=code)
        rc, out, err = boundscheck_replay(code, w)
        w["observed"] = (out + err)[-500:]
        if "INDEXERROR" in out:
            return violated("index_in_range", site, f"{case}: out-of-bounds access under NUMBA_BOUNDSCHECK=1: { {k: v2 for k, v2 in w.items() if k not in ('replay_code', 'observed')} }", w, validated=1, **common)
        return inconclusive(f"{case}: '{v.label}' fails symbolically but does not replay as IndexError: {w['observed'][-200:]}", **common)
    if not ok or not eng.outcomes.get("ran") or core.ACCESSES == acc0:
        return inconclusive(f"{case}: exploration not conclusive {eng.stats()}", **common)
    return held(summary=f"{case}: {eng.paths} paths, {core.ACCESSES - acc0} array accesses in range", sample=dict(case=case, accesses=core.ACCESSES - acc0), **common)


def job_tour_length(n):
    import moptipyapps.tsp.tour_length as tl
    from symx.core import INT64
    f = xform.transform(tl.tour_length)

    def run(eng):
        D = fresh_array("d", (n, n), dtype=INT64)
        x = _perm(eng, "x", n)
        f(D, x)
    return _explore_index(run, f"tour_length n={n}", "tsp/tour_length.py:tour_length",
                          lambda md: dict(D=[[0 if i == j else 1 + i + j for j in range(n)] for i in range(n)], x=[md.get(f"x_{k}", k) for k in range(n)]), REPLAY_TOUR)


def job_qap_eval(n):
    import moptipyapps.qap.objective as qo
    from symx.core import INT64
    f = xform.transform(qo._evaluate)

    def run(eng):
        D = fresh_array("D", (n, n), dtype=INT64)
        F = fresh_array("F", (n, n), dtype=INT64)
        x = _perm(eng, "x", n)
        f(x, D, F)
    return _explore_index(run, f"qap _evaluate n={n}", "qap/objective.py:_evaluate", lambda md: dict(n=n, x=[md.get(f"x_{k}", k) for k in range(n)]), REPLAY_QAP)


def job_swap_distance(n):
    import moptipyapps.order1d.distances as od
    f = xform.transform(od.swap_distance)

    def run(eng):
        p1, p2 = _perm(eng, "p1", n), _perm(eng, "p2", n)
        f(p1, p2)
    return _explore_index(run, f"swap_distance n={n}", "order1d/distances.py:swap_distance",
                          lambda md: dict(p1=[md.get(f"p1_{k}", k) for k in range(n)], p2=[md.get(f"p2_{k}", k) for k in range(n)]), REPLAY_SWAP)


REPLAY_REV = '''
import numpy as np
from moptipyapps.tsp.instance import Instance
import moptipyapps.tsp.ea1p1_revn as ea
import moptipyapps.tsp.fea1p1_revn as fea
n = W["n"]
D = np.array([[0 if i == j else 1 + abs(i - j) for j in range(n)] for i in range(n)], dtype=np.int64)
inst = Instance("t", 0, D)
x = np.array(W["x"], dtype=np.int64)
y = int(sum(D[x[k - 1], x[k]] for k in range(n)))
try:
    if W["algo"] == "ea":
        print("VALUE", ea.rev_if_not_worse(W["i"], W["j"], n, inst, x, y))
    else:
        h = np.zeros(int(inst.tour_length_upper_bound) + 1, np.int64)
        print("VALUE", fea.rev_if_h_not_worse(W["i"], W["j"], n, inst, h, x, y))
except IndexError as ex:
    print("INDEXERROR", ex)
'''


def job_rev_kernel(algo, n):
    """the reversal move kernels called directly over their documented domain (first, smaller index i; second, larger index j; the
    successor of j is read with index wrap, so j may be the last index): 0 <= i < j <= n-1, any permutation"""
    import moptipyapps.tsp.ea1p1_revn as ea
    import moptipyapps.tsp.fea1p1_revn as fea
    from symx.core import INT64
    f = xform.transform(ea.rev_if_not_worse if algo == "ea" else fea.rev_if_h_not_worse)

    def run(eng):
        D = fresh_array("d", (n, n), dtype=INT64)
        x = _perm(eng, "x", n)
        i, j = fresh_int("i"), fresh_int("j")
        eng.assume(z3.And(i.e >= 0, i.e < j.e, j.e <= n - 1))
        y = fresh_int("y")
        if algo == "ea":
            f(i, j, n, D, x, y)
        else:
            hh = fresh_array("h", (8,), dtype=INT64)
            eng.assume(z3.And(y.e >= 0, y.e < 4))          # the table is indexed by tour lengths: keep them inside the small table
            eng.assume(z3.And(*[z3.And(lift(D[a, b]) >= 0, lift(D[a, b]) <= 0) for a in range(n) for b in range(n)]))
            f(i, j, n, D, hh, x, y)
    return _explore_index(run, f"{algo} reversal kernel n={n}", f"tsp/{'ea1p1_revn' if algo == 'ea' else 'fea1p1_revn'}.py",
                          lambda md: dict(algo=algo, n=n, i=md.get("i", 0), j=md.get("j", 1), x=[md.get(f"x_{k}", k) for k in range(n)]), REPLAY_REV)


def job_move_kernels(algo, n):
    """index obligations of the reversal kernels inside the real solve loop (C06 harness, index clauses only)"""
    from . import c06
    r = c06.job_loop(algo, n, 1)
    if r["status"] == "violated":
        r["clause"] = "index_in_range"
    r["summary"] = f"move kernel of {algo} n={n} (via the C06 loop harness, all obligations incl. index ranges): " + str(r.get("summary"))
    return r


def job_controllers():
    """controllers / systems / j_from_ode: literal indices vs declared dimensions (C16 / C10 harness runs record every access)"""
    from . import c16, c10
    acc0 = core.ACCESSES
    res = []
    for kind in ("linear", "quadratic", "cubic"):
        for sd in (2, 3):
            res.append(c16.job_polynomial(kind, sd))
    for sd in (2, 3):
        for idx in range(3):
            res.append(c16.job_partially_linear(sd, idx))
        res.append(c16.job_peaks(sd))
    res.append(c16.job_ann(c16.ann_archs("quick", 0, 16)))
    for name, sd in (("stuart_landau", 2), ("lorenz", 3), ("three_coupled_oscillators", 6)):
        res.append(c16.job_system(name, sd))
    for R, sd, cd, use in ((3, 2, 1, -1), (3, 2, 2, 1), (4, 3, 1, 2)):
        res.append(c10.job_j(R, sd, cd, use))
    bad = [r for r in res if r["status"] != "held"]
    common = dict(paths=sum(int(r.get("paths") or 0) for r in res), queries=dict(sat=0, unsat=sum(int((r.get("queries") or {}).get("unsat", 0)) for r in res), unknown=0),
                  vacuity=dict(accesses=core.ACCESSES - acc0))
    if bad:
        b = bad[0]
        if b["status"] == "violated" and "range" in str(b.get("what", "")):
            return violated("index_in_range", b.get("site"), str(b.get("what")), b.get("witness"), validated=1, **common)
        return inconclusive(f"controller/system harness reports: {b.get('what') or b.get('why')}", **common)
    return held(summary=f"controllers, systems, j_from_ode: {len(res)} kernels run with arrays of exactly the declared dimensions, {core.ACCESSES - acc0} accesses in range",
                sample=dict(case="controllers/systems/j_from_ode", kernels=len(res)), **common)


def jobs(tier):
    js = []
    shipped = sorted({s for _, s in T.shipped_settings(4).values()})
    for S in shipped:
        js.append(Job(f"count_errors/n4/r2/{'-'.join(map(str, S))}", job_count_errors, dict(n=4, rounds=2, settings=S), "index_in_range", 600))
    js.append(Job("count_errors/n4/r1/symbolic", job_count_errors, dict(n=4, rounds=1, settings=None), "index_in_range", 600))
    js.append(Job("count_errors/n2/r2/symbolic", job_count_errors, dict(n=2, rounds=2, settings=None), "index_in_range", 600))
    if tier == "thorough":
        js.append(Job("count_errors/n4/r2/symbolic", job_count_errors, dict(n=4, rounds=2, settings=None), "index_in_range", 1200))
        js.append(Job("count_errors/n6/r1/shipped", job_count_errors, dict(n=6, rounds=1, settings=shipped[0]), "index_in_range", 1800))
    for n, r in [(2, 2), (4, 1), (4, 2)] + ([(6, 1), (6, 2)] if tier == "thorough" else []):
        js.append(Job(f"game_plan_length/n{n}/r{r}", job_plan_length, dict(n=n, rounds=r), "index_in_range", 900))
    for n, r in [(2, 2), (3, 1), (3, 2), (4, 1), (4, 2), (5, 2), (6, 2), (8, 2)] + ([(7, 3), (10, 2), (12, 3)] if tier == "thorough" else []):
        js.append(Job(f"map_games/n{n}/r{r}", job_map_games, dict(n=n, rounds=r), "index_in_range", 600))
    for enc in (1, 2):
        for reps in ([1], [2], [1, 1]) + (([1, 2], [1, 1, 1], [3]) if tier == "thorough" else ()):
            js.append(Job(f"decoder/enc{enc}/reps{'-'.join(map(str, reps))}", job_decoder, dict(enc=enc, reps=list(reps)), "index_in_range", 1800))
    for n in (2, 3, 4) + ((5, 6) if tier == "thorough" else ()):
        js.append(Job(f"tour_length/n{n}", job_tour_length, dict(n=n), "index_in_range", 600))
        js.append(Job(f"qap_evaluate/n{n}", job_qap_eval, dict(n=n), "index_in_range", 600))
        js.append(Job(f"swap_distance/n{n}", job_swap_distance, dict(n=n), "index_in_range", 900))
    for algo in ("ea", "fea"):
        for n in (4, 5) + ((6,) if tier == "thorough" else ()):
            js.append(Job(f"move_kernel/{algo}/n{n}", job_move_kernels, dict(algo=algo, n=n), "index_in_range", 1200))
            js.append(Job(f"rev_kernel/{algo}/n{n}", job_rev_kernel, dict(algo=algo, n=n), "index_in_range", 900))
    js.append(Job("controllers-systems-j", job_controllers, {}, "index_in_range", 1200))
    from . import c02
    for name in c02.OBJECTIVES:
        for reps in ([1], [1, 1], [2], [1, 1, 1]) + (([2, 1], [3], [1, 1, 1, 1]) if tier == "thorough" else ()):
            if "Skyline" in name and sum(reps) > (2 if tier == "quick" else 3):
                continue
            js.append(Job(f"objective/{name}/reps{'-'.join(map(str, reps))}", job_objective, dict(name=name, reps=list(reps)), "index_in_range", 900))
    return js


def meta(tier):
    return dict(
        bounds=dict(decoders="both decoders through the public API, <= 2 items (thorough 3), every signed permutation, sizes symbolic to 10^12, garbage destination",
                    tsp_qap_order1d="tour_length, qap _evaluate, swap_distance on symbolic permutations n <= 4 (thorough 6); reversal kernels inside the real EA/FEA loop n <= 5 (thorough 6)",
                    control="controllers (incl. generated ANNs), systems and the figure-of-merit kernel run with arrays of exactly the declared dimensions",
                    objectives="the seven bin-packing objectives on every feasible packing of <= 3 rows (skyline: 2; thorough 4/3), sizes symbolic up to 10^12, "
                               "every item in its own bin included",
                    ttp="count_errors n in {2,4} (thorough 6), rounds 1..2, all plans -n..n incl. self-play, shipped + symbolic settings; "
                        "game_plan_length same plan domain; map_games: one game from an arbitrary plan, every code of the blueprint range, n<=8 (thorough 12)"),
        outside=["min_ann and predefined controllers", "kernels reached only through scipy/numpy internals", "sizes beyond the stated bounds"],
        assumptions=["inputs are those the public spaces accept (plan entries -n..n; game codes of the blueprint range)",
                     "numba negative-index wrap: index in [-len, len) is in range"],
        stubs=["np.ndarray -> SymArray with per-access range obligations"])
