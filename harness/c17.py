"""C17 - generated bin-packing instances keep the template's size and bin need (partial: see meta.outside).

The real InstanceDecoder.decode runs on a concrete template and a vector x whose entries are ABSTRACTED: each x_i
is a sign bit plus, for every product int(k * x_i) the code takes, an arbitrary integer truncation in [-k, k]
consistent with the sign (an over-approximation of floats in [-1, 1]).  For replay each x_i is chosen inside the
interval implied by all truncations recorded for it; a model whose interval is empty is spurious and discarded."""
from __future__ import annotations

import random
import time
from fractions import Fraction

import z3

from symx import core, xform, util, backend
from symx.core import Engine, SymInt, SymBool, fresh_int, lift, mk, mkb, Abort, s_int
from symx.runner import Job, held, violated, inconclusive

PROP = "C17"
PRODS = []       # (unit name, k term, t term) recorded on the current path


class Unit:
    """abstract float in [-1, 1]: only its sign and its truncated multiples are observable by the decoder"""

    def __init__(self, name):
        self.neg = z3.Bool(name + "_neg")
        self.name = name

    def __lt__(self, o):
        if o != 0.0:
            raise core.EngineError("abstract x compared with a non-zero constant")
        return mkb(self.neg)

    def __ge__(self, o):
        if o != 0.0:
            raise core.EngineError("abstract x compared with a non-zero constant")
        return mkb(z3.Not(self.neg))

    def __rmul__(self, k):
        return Prod(k, self)
    __mul__ = __rmul__


class Prod:
    def __init__(self, k, u):
        self.k, self.u = k, u


_cnt = [0]


def s_int_abs(v=0, *a):
    if isinstance(v, Prod):
        _cnt[0] += 1
        t = z3.Int(f"t{_cnt[0]}_{v.u.name}")
        k = lift(v.k)
        PRODS.append((v.u.name, k, t))
        core.ENG.assume(z3.If(v.u.neg, z3.And(t <= 0, t >= -k), z3.And(t >= 0, t <= k)))
        return mk(t)
    return s_int(v, *a)


class _IntMeta(type):
    def __instancecheck__(cls, obj):
        return isinstance(obj, (int, SymInt))

    def __call__(cls, *a):
        return s_int_abs(*a) if a else 0

    def __getattr__(cls, name):
        return getattr(int, name)


class SIntAbs(int, metaclass=_IntMeta):
    pass


class RecInstance:
    last = {}

    def __init__(self, name, bw, bh, items):
        RecInstance.last = dict(name=name, bw=bw, bh=bh, items=items)


class _FakeRng:
    def shuffle(self, items):
        pass


class XV(list):
    def tobytes(self):
        return b"\x00"


_orig_mul = SymInt.__mul__
_orig_rmul = SymInt.__rmul__


def _mul(self, o):
    if isinstance(o, Unit):
        return Prod(self, o)
    return _orig_mul(self, o)


def decoder():
    import moptipyapps.binpacking2d.instgen.inst_decoding as idc
    SymInt.__mul__ = _mul
    SymInt.__rmul__ = lambda self, o: Prod(self, o) if isinstance(o, Unit) else _orig_rmul(self, o)
    ov = core.install_builtins({"int": SIntAbs, "Instance": RecInstance, "default_rng": lambda seed: _FakeRng()})
    return xform.transform(idc.InstanceDecoder.decode, overrides=ov), idc


def template(W, H, NI, MB, tk="area"):
    """a concrete template with the given bin, item count and minimum bin number.  tk="area": the bin need follows from the total
    area (MB - 1 full-bin items plus unit squares); tk="half": it follows from MB items larger than half a bin in both dimensions
    (the geometric lower bound exceeds the area bound, total area <= (MB - 1) bins)"""
    from moptipyapps.binpacking2d.instance import Instance
    rows = []
    if tk == "half":
        rows.append([W // 2 + 1, H // 2 + 1, MB])
        rows.append([1, 1, NI - MB])
    else:
        if MB > 1:
            rows.append([W, H, MB - 1])
        rest = NI - (MB - 1)
        rows.append([1, 1, rest])
    inst = Instance("t", W, H, rows)
    if inst.lower_bound_bins != MB or inst.n_items != NI:
        raise core.EngineError(f"template construction failed: lb={inst.lower_bound_bins} n={inst.n_items}")
    return inst


def real_decode(W, H, NI, MB, x, tk="area"):
    import numpy as np
    from moptipyapps.binpacking2d.instgen.instance_space import InstanceSpace
    from moptipyapps.binpacking2d.instgen.inst_decoding import InstanceDecoder
    sp = InstanceSpace(template(W, H, NI, MB, tk))
    dec = InstanceDecoder(sp)
    y = []
    dec.decode(np.array(x, dtype=float), y)
    y2 = []
    dec.decode(np.array(x, dtype=float), y2)
    return sp, y[0], y2[0]


def replay(w):
    if w.get("kind") == "errors_sym":
        return replay_errors_sym(w)
    W, H, NI, MB, x = w["W"], w["H"], w["NI"], w["MB"], w["x"]
    try:
        sp, inst, inst2 = real_decode(W, H, NI, MB, x, w.get("tk", "area"))
    except (IndexError, ValueError, ZeroDivisionError) as ex:
        return True, dict(raised=f"{type(ex).__name__}: {ex}"[:200])
    A = W * H
    info = dict(compact=inst.to_compact_str(), n_items=int(inst.n_items), total_item_area=int(inst.total_item_area), lower_bound_bins=int(inst.lower_bound_bins),
                min_bins=MB, name=inst.name, bin=[int(inst.bin_width), int(inst.bin_height)])
    bad = (inst.name != "tn" or inst.bin_width != W or inst.bin_height != H or inst.n_items != NI or
           not ((MB - 1) * A < inst.total_item_area <= MB * A) or inst.lower_bound_bins != MB or inst.to_compact_str() != inst2.to_compact_str())
    return bad, info


def replay_errors_sym(w):
    import numpy as np
    from moptipyapps.binpacking2d.instance import Instance
    from moptipyapps.binpacking2d.instgen.instance_space import InstanceSpace
    from moptipyapps.binpacking2d.instgen.errors import Errors
    try:
        tpl = Instance("tpl", w["W"], w["H"], w["template"])
        er = Errors(InstanceSpace(tpl))
    except ValueError as e:
        return False, dict(rejected=str(e)[:100])
    try:
        if w.get("instance") is None:
            v = float(er.evaluate([tpl]))
            return v != 0.0, dict(value=v)
        inst = Instance("gen", w["W"], w["H"], w["instance"])
        v = float(er.evaluate([inst]))
        return not (0.0 <= v <= 1.0), dict(value=v)
    except ValueError as e:
        return True, dict(raised=str(e)[:120])


def x_from_model(model, saved, dim):
    """choose each x_i as a float that reproduces every truncation int(k*x_i) recorded for it and its sign;
    None if no candidate does (the abstract model is then spurious)"""
    import math
    per = {i: [] for i in range(dim)}
    for (u, k, t) in saved:
        kv = model.eval(k, model_completion=True).as_long()
        tv = model.eval(t, model_completion=True).as_long()
        per[int(u[1:])].append((kv, tv))
    xs = []
    for i in range(dim):
        neg = z3.is_true(model.eval(z3.Bool(f"u{i}_neg"), model_completion=True))
        lo, hi = (Fraction(-1), Fraction(0)) if neg else (Fraction(0), Fraction(1))
        for kv, tv in per[i]:
            if kv == 0:
                continue
            if tv > 0:
                a, b = Fraction(tv, kv), Fraction(tv + 1, kv)
            elif tv < 0:
                a, b = Fraction(tv - 1, kv), Fraction(tv, kv)
            else:
                a, b = Fraction(-1, kv), Fraction(1, kv)
            lo, hi = max(lo, a), min(hi, b)
        if lo > hi:
            return None
        cands = [(lo + hi) / 2, lo, hi, lo + (hi - lo) / 1000, hi - (hi - lo) / 1000]
        pick = None
        for c in cands:
            xf = float(c)
            if not (-1.0 <= xf <= 1.0) or (xf < 0.0) != neg:
                continue
            if all(int(kv * xf) == tv for kv, tv in per[i]):
                pick = xf
                break
        if pick is None:
            return None
        xs.append(pick)
    return xs


def consistent(W, H, NI, MB, x, saved, model):
    """does the concrete x reproduce the truncations of the model? (int(k*x) for every recorded product)"""
    for (u, k, t) in saved:
        kv = model.eval(k, model_completion=True).as_long()
        tv = model.eval(t, model_completion=True).as_long()
        i = int(u[1:])
        if int(kv * x[i]) != tv:
            return False
    return True


def job_decode(W, H, NI, MB, slack, timeout_s=900, signs=None, tk="area"):
    dec, idc = decoder()
    dim = 2 * (NI - MB) + 2 * slack
    A = W * H
    saved = []

    class Space:
        pass

    class Dec:
        pass
    from moptipyapps.binpacking2d.instgen.instance_space import InstanceSpace
    real_space_attrs = {k_: v_ for k_, v_ in vars(InstanceSpace(template(W, H, NI, MB, tk))).items() if isinstance(v_, (int, str))}

    def h(eng):
        _cnt[0] = 0
        del PRODS[:]
        sp = Space()
        for k_, v_ in real_space_attrs.items():        # every attribute a real InstanceSpace of this template has (item ranges, total area, ...)
            setattr(sp, k_, v_)
        sp.bin_width, sp.bin_height, sp.min_bins, sp.n_items, sp.inst_name = W, H, MB, NI, "tn"
        d = Dec()
        d.space = sp
        x = XV([Unit(f"u{i}") for i in range(dim)])
        if signs:
            # enumerated split of the input space: the sign bits of the first entries are fixed per job
            eng.assume(z3.And(*[(x[i].neg if sg else z3.Not(x[i].neg)) for i, sg in enumerate(signs)]))
        y = []
        try:
            dec(d, x, y)
        except (IndexError, ZeroDivisionError) as ex:
            saved[:] = list(PRODS)
            eng.oblige(False, f"decoder raised {type(ex).__name__}", now=True)
            return "raised"
        eng.flush()
        rec = RecInstance.last
        items = rec["items"]
        tot, n, conds = 0, 0, []
        for it in items:
            w, hh, m = it
            tot = tot + w * hh * m
            n = n + m
            conds.append(z3.And(lift(w) >= 1, lift(hh) >= 1, lift(w) <= W, lift(hh) <= H, lift(m) >= 1))
        conds.append(lift(n) == NI)
        conds.append(z3.And(lift(tot) <= MB * A, lift(tot) >= (MB - 1) * A + 1))
        conds.append(z3.BoolVal(rec["name"] == "tn" and rec["bw"] == W and rec["bh"] == H))
        for a in range(len(items)):
            for b in range(a):
                conds.append(z3.Or(lift(items[a][0]) != lift(items[b][0]), lift(items[a][1]) != lift(items[b][1])))
        saved[:] = list(PRODS)
        eng.oblige(z3.And(*conds), "instance keeps name, bin, item count, item sizes within the bin, area needs exactly min_bins bins, equal items merged", now=True)
        return "decoded"
    eng = Engine(timeout_ms=60000, deadline=time.time() + timeout_s)
    ok = eng.explore(h)
    common = dict(paths=eng.paths, queries=dict(sat=eng.n_sat, unsat=eng.n_unsat, unknown=eng.unknown), solver_s=round(eng.t_solver, 2),
                  vacuity=dict(outcomes=eng.outcomes))
    if eng.violations:
        v = eng.violations[0]
        x = x_from_model(v.model, saved, dim)
        if x is None or not consistent(W, H, NI, MB, x, saved, v.model):
            # try the interval ends explicitly for every entry (bounded search over corners)
            x = None
        if x is None:
            return inconclusive(f"counterexample of the abstraction is not realisable by floats (spurious): {v.label}", **common)
        w = dict(W=W, H=H, NI=NI, MB=MB, slack=slack, x=x, label=v.label, tk=tk)
        bad, info = replay(w)
        w["observed"] = info
        if bad:
            site = "binpacking2d/instgen/inst_decoding.py:decode"
            if "raised" not in info and info.get("total_item_area", 0) <= (MB - 1) * A:
                site += "/slack-area-accounting"
            return violated("decoded_instance", site, f"template {W}x{H} items={NI} min_bins={MB} slack pairs={slack} x={x} -> {info}", w, validated=1, **common)
        return inconclusive(f"model does not replay: {w}", **common)
    if not ok or not eng.outcomes.get("decoded"):
        return inconclusive(f"not conclusive {eng.stats()}", **common)
    return held(summary=f"template {W}x{H} n_items={NI} min_bins={MB} slack={slack}: {eng.paths} paths, all decoded instances keep the invariants",
                sample=dict(template=[W, H, NI, MB], slack_pairs=slack, x="sign + arbitrary truncations"), **common)


def job_errors(seed):
    """Errors objective: 0 on the template itself, within [0, 1] on decoded instances (concrete cross-check)"""
    import numpy as np
    from moptipyapps.binpacking2d.instgen.instance_space import InstanceSpace
    from moptipyapps.binpacking2d.instgen.inst_decoding import InstanceDecoder
    from moptipyapps.binpacking2d.instgen.errors import Errors
    rnd = random.Random(seed)
    cnt = 0
    for (W, H, NI, MB) in ((4, 3, 4, 2), (5, 5, 6, 2), (6, 4, 5, 3), (3, 3, 3, 1)):
        tpl = template(W, H, NI, MB)
        sp = InstanceSpace(tpl)
        e = Errors(sp)
        v0 = float(e.evaluate([tpl]))
        cnt += 1
        if v0 != 0.0:
            w = dict(W=W, H=H, NI=NI, MB=MB, slack=0, x=[], label="errors(template) != 0")
            return violated("errors_objective", "binpacking2d/instgen/errors.py", f"Errors.evaluate(template) = {v0}", w, validated=cnt, paths=cnt)
        dec = InstanceDecoder(sp)
        for _ in range(25):
            x = np.array([rnd.choice([-1.0, 0.0, 1.0, rnd.uniform(-1, 1)]) for _ in range(dec.get_x_dim(0))])
            y = []
            dec.decode(x, y)
            v = float(e.evaluate(y))
            cnt += 1
            if not (0.0 <= v <= 1.0):
                w = dict(W=W, H=H, NI=NI, MB=MB, slack=0, x=[float(q) for q in x], label="errors outside [0,1]")
                return violated("errors_objective", "binpacking2d/instgen/errors.py", f"Errors.evaluate = {v}", w, validated=cnt, paths=cnt)
    return held(validated=cnt, paths=cnt, queries={}, summary=f"Errors objective: 0 on templates, in [0,1] on {cnt} decoded instances (concrete)")


def job_errors_sym(reps_t, reps_i):
    """Errors objective on SYMBOLIC instances (real Instance constructor, real InstanceSpace.__init__, real Errors.__init__ and
    evaluate): (1) evaluate(template) == 0 for every template the space accepts with the given multiplicities; (2) for every
    instance with the template's bin and number of items (what the decoder produces) evaluate does not raise and lies in [0, 1]"""
    from . import pack_common as P
    from moptipyapps.binpacking2d.instgen.instance_space import InstanceSpace
    from moptipyapps.binpacking2d.instgen.errors import Errors
    ov = core.install_builtins(dict(check_int_range=P.s_check_int_range))
    sp_init = xform.transform(InstanceSpace.__init__, ov)
    er_init = xform.transform(Errors.__init__, ov)
    er_eval = xform.transform(Errors.evaluate, ov)
    stats = dict(paths=0, sat=0, unsat=0, unknown=0, solver=0.0)
    problems = []

    def build(eng, with_other):
        tpl = P.make_instance(eng, reps_t, name="tpl", maxdim=50)
        lbb = fresh_int("lbb")
        eng.assume(z3.And(lbb.e >= 1, lbb.e <= sum(reps_t)))
        tpl.lower_bound_bins = lbb
        sp = InstanceSpace.__new__(InstanceSpace)
        try:
            sp_init(sp, tpl)
            er = Errors.__new__(Errors)
            er_init(er, sp)
        except ValueError:
            return None, None, None        # the space rejects this template: nothing to show
        return tpl, sp, er

    def zero(eng):
        tpl, sp, er = build(eng, False)
        if tpl is None:
            return "rejected"
        try:
            v = er_eval(er, [tpl])
        except ValueError as e:
            eng.oblige(False, "Errors.evaluate(template) raises: " + str(e)[:60], now=True)
            return "raised"
        eng.oblige(lift(v) == 0, "Errors.evaluate(template) == 0", now=True)
        return "template"

    def rng(eng):
        tpl, sp, er = build(eng, True)
        if tpl is None:
            return "rejected"
        if sum(reps_i) != sum(reps_t):
            raise Abort("item counts differ")
        # any instance with the template's bin and number of items (what InstanceDecoder.decode delivers)
        f, Instance = P.instance_ctor()
        nd = len(reps_i)
        matrix = [[fresh_int(f"iw{k}"), fresh_int(f"ih{k}"), int(reps_i[k])] for k in range(nd)]
        eng.assume(P.instance_domain(tpl.W.e, tpl.H.e, [(m[0], m[1], m[2]) for m in matrix]))
        try:
            out = xform.call_block(f, cls=Instance, name="gen", bin_width=tpl.W, bin_height=tpl.H, matrix=matrix)
        except (ValueError, TypeError):
            raise Abort("constructor rejects")
        inst = out["obj"]
        try:
            v = er_eval(er, [inst])
        except ValueError as e:
            eng.oblige(False, "Errors.evaluate(decoded-like instance) raises: " + str(e)[:60], now=True)
            return "raised"
        eng.oblige(z3.And(lift(v) >= 0, lift(v) <= 1), "Errors.evaluate in [0, 1]", now=True)
        return "instance"
    outcomes = {}
    for fn in (zero, rng):
        eng = Engine(timeout_ms=60000, max_paths=3000)
        ok = eng.explore(fn)
        stats["paths"] += eng.paths
        stats["sat"] += eng.n_sat
        stats["unsat"] += eng.n_unsat
        stats["unknown"] += eng.unknown
        stats["solver"] += eng.t_solver
        for k, v in eng.outcomes.items():
            outcomes[k] = outcomes.get(k, 0) + v
        if eng.violations:
            v = eng.violations[0]
            md = {d.name(): v.model[d] for d in v.model.decls()}

            def val(nm):
                return int(str(md[nm])) if nm in md else 1
            w = dict(kind="errors_sym", label=v.label, W=val("W"), H=val("H"), template=[[val(f"w{k}"), val(f"h{k}"), int(reps_t[k])] for k in range(len(reps_t))],
                     instance=[[val(f"iw{k}"), val(f"ih{k}"), int(reps_i[k])] for k in range(len(reps_i))] if fn is rng else None)
            bad, info = replay(w)
            w["observed"] = info
            common = dict(paths=stats["paths"], queries=dict(sat=stats["sat"], unsat=stats["unsat"], unknown=stats["unknown"]), solver_s=round(stats["solver"], 2))
            if bad:
                return violated("errors_objective", "binpacking2d/instgen/errors.py", f"{v.label}: {w}", w, validated=1, **common)
            return inconclusive(f"model does not replay: {w}", **common)
        if not ok:
            problems.append(f"{fn.__name__}: exploration not conclusive {eng.stats()}")
    common = dict(paths=stats["paths"], queries=dict(sat=stats["sat"], unsat=stats["unsat"], unknown=stats["unknown"]), solver_s=round(stats["solver"], 2),
                  vacuity=dict(outcomes=outcomes))
    if problems:
        return inconclusive("; ".join(problems)[:300], **common)
    if not outcomes.get("template") or (sum(reps_i) == sum(reps_t) and not outcomes.get("instance")):
        return inconclusive(f"vacuous: outcomes {outcomes}", **common)
    return held(summary=f"Errors objective, template multiplicities {reps_t}, instance multiplicities {reps_i}: 0 on the template, no exception and within [0,1] on every instance of the space ({stats['paths']} paths)",
                sample=dict(query="exists template / instance with Errors.evaluate(template) != 0, an exception, or a value outside [0,1]", answer="unsat"), **common)


def jobs(tier):
    import os
    seed = int(os.environ.get("VERIF_SEED", "0") or 0)
    js = [Job("errors-objective", job_errors, dict(seed=seed), "errors_objective", 600)]
    for rt, ri in [((1,), (1,)), ((2,), (1, 1)), ((1, 1), (2,)), ((1, 2), (1, 1, 1)), ((1, 1, 1), (3,))] + ([((2, 2), (1, 1, 2)), ((1, 1, 2), (2, 2)), ((3, 1), (1, 1, 1, 1))] if tier == "thorough" else []):
        js.append(Job(f"errors-sym/t{'-'.join(map(str, rt))}/i{'-'.join(map(str, ri))}", job_errors_sym, dict(reps_t=list(rt), reps_i=list(ri)), "errors_objective", 900))
    import itertools
    # strips (one side 1): every item has size 1 in one dimension, so the search for a cuttable item falls back to the other dimension
    cfg = [(4, 1, 3, 1, 0, 0), (1, 4, 3, 1, 0, 0), (5, 1, 3, 1, 1, 0), (3, 3, 3, 1, 0, 0), (3, 3, 3, 1, 1, 0), (3, 3, 4, 2, 0, 0), (3, 3, 4, 2, 1, 2), (4, 3, 3, 2, 2, 0), (2, 2, 3, 1, 1, 0), (2, 2, 3, 1, 2, 2), (3, 2, 3, 2, 2, 0)]
    if tier == "thorough":
        cfg += [(3, 2, 3, 2, 3, 3), (4, 3, 3, 2, 3, 6), (4, 3, 4, 2, 2, 5), (4, 2, 4, 1, 1, 4), (4, 4, 4, 2, 1, 4), (5, 3, 4, 2, 2, 5), (3, 3, 5, 2, 1, 5), (6, 4, 3, 2, 2, 3)]
    # templates whose bin need comes from items larger than half a bin (total area at most MB - 1 bins)
    for (W, H, NI, MB, sl) in [(3, 3, 3, 2, 1), (5, 5, 3, 2, 2), (4, 3, 3, 2, 2)] + ([(3, 3, 4, 2, 2), (3, 3, 4, 2, 1)] if tier == "thorough" else []):
        js.append(Job(f"decode-half/{W}x{H}/n{NI}/b{MB}/s{sl}", job_decode, dict(W=W, H=H, NI=NI, MB=MB, slack=sl, signs=[], tk="half",
                                                                                   timeout_s=900 if tier == "quick" else 3000),
                      "decoded_instance", 1000 if tier == "quick" else 3300, weight=NI + sl))
    for (W, H, NI, MB, sl, nsplit) in cfg:
        for signs in itertools.product((0, 1), repeat=nsplit):
            tag = "".join(map(str, signs)) or "all"
            js.append(Job(f"decode/{W}x{H}/n{NI}/b{MB}/s{sl}/{tag}", job_decode, dict(W=W, H=H, NI=NI, MB=MB, slack=sl, signs=list(signs),
                                                                                      timeout_s=900 if tier == "quick" else 3000),
                          "decoded_instance", 1000 if tier == "quick" else 3300, weight=NI + sl))
    return js


def meta(tier):
    return dict(
        bounds=dict(templates="concrete small templates (strips 4x1, 1x4, 5x1; templates whose bin need comes from items larger than half a bin - 3x3, 4x3, 5x5 bins with 1-2 slack pairs; bins 2x2, 3x3, 4x3; 3-4 items; min_bins 1-2; 0-3 slack pairs; thorough adds 4x2, 4x4, 5x3, 6x4 bins and 5 items), large ones split over the sign bits of the first entries",
                    similarity="Errors objective on symbolic templates with 1-3 item types (thorough 4), dimensions <= 50: 0 on the template, no exception and [0,1] on every instance with the template's bin and item count",
                    x="every entry: sign bit + arbitrary integer truncation of each product int(k*x_i) in [-k, k] (covers -1, 0, 1 and all values between)"),
        outside=["lower_bound_bins == min_bins follows from the area invariant only together with C03 (checked on replayed witnesses)", "hardness objectives (inner optimisation runs)",
                 "the seeded shuffle (replaced by the identity)", "larger templates", "decoding twice gives the same instance (checked on replayed witnesses only)"],
        assumptions=["floats in [-1,1] are over-approximated by sign + truncation; spurious models (empty interval) are discarded and make the run inconclusive, never a violation"],
        stubs=["Instance replaced by a recorder inside decode", "default_rng(...).shuffle -> identity", "int() on k*x -> fresh integer with sign-consistent range"])
