"""C19 - text forms of instances and solutions round-trip (partial: see meta.outside).

Numbers travel through the real string code as opaque atom tokens (core.AtomStr): str(int)/format produce a marker,
int(str)/check_to_int_range/np.fromstring map it back.  Assumption made explicit: Python's own str(int) and
int(str) are inverse and never emit separator characters."""
from __future__ import annotations

import random
import time

import z3

from symx import core, xform, util, backend
from symx.core import Engine, SymArray, SymInt, fresh_array, fresh_int, lift, mk, Abort, INT64
from symx.runner import Job, held, violated, inconclusive
from . import pack_common as P
from . import c09

PROP = "C19"


# ------------------------------------------------------------------ instance compact string
def compact_funcs():
    import moptipyapps.binpacking2d.instance as im
    f_ctor, Instance = P.instance_ctor()

    def sym_instance(name, bw, bh, items):
        try:
            out = xform.call_block(f_ctor, cls=Instance, name=name, bin_width=bw, bin_height=bh, matrix=items)
        except TypeError as e:
            raise ValueError(str(e))
        return out["obj"]
    ov = core.install_builtins(dict(check_to_int_range=c09.s_check_to_int_range, check_int_range=P.s_check_int_range, Instance=sym_instance))
    to_c = xform.transform(im.Instance.to_compact_str, core.install_builtins())
    from_c = xform.transform(im.Instance.from_compact_str, ov)
    return to_c, from_c


def replay(w):
    kind = w["kind"]
    if kind == "compact":
        from moptipyapps.binpacking2d.instance import Instance
        from moptipyapps.binpacking2d.instgen.instance_space import InstanceSpace
        inst = Instance(w.get("name", "i"), w["W"], w["H"], [list(i) for i in w["items"]])
        txt = inst.to_compact_str()
        info = dict(text=txt)
        try:
            back = Instance.from_compact_str(txt)
            try:
                isp = InstanceSpace(inst)        # templates with items that only fit rotated are outside this space's domain
            except ValueError:
                isp = None
            back2 = isp.from_str(isp.to_str([inst]))[0] if isp is not None else back
        except ValueError as e:
            info["raised"] = str(e)[:150]
            return True, info
        import numpy as np
        same = lambda b: (b.name == inst.name and b.bin_width == inst.bin_width and b.bin_height == inst.bin_height and b.dtype == inst.dtype and
                          np.array_equal(np.asarray(b), np.asarray(inst)) and b.n_items == inst.n_items and b.lower_bound_bins == inst.lower_bound_bins and
                          b.total_item_area == inst.total_item_area and b.n_different_items == inst.n_different_items)
        info["equal"] = bool(same(back)) and bool(same(back2))
        return not info["equal"], info
    if kind == "packing":
        import numpy as np
        from moptipyapps.binpacking2d.instance import Instance
        from moptipyapps.binpacking2d.packing import Packing
        from moptipyapps.binpacking2d.packing_space import PackingSpace
        inst = Instance(w.get("name", "i"), w["W"], w["H"], [list(i) for i in w["items"]])
        sp = PackingSpace(inst)
        y = Packing(inst)
        np.copyto(y, np.array(w["rows"], dtype=np.int64), casting="unsafe")
        y.n_bins = max(r[1] for r in w["rows"])
        info = {}
        try:
            sp.validate(y)
            txt = sp.to_str(y)
            info["text"] = txt
            back = sp.from_str(txt)
        except ValueError as e:
            info["raised"] = str(e)[:150]
            return True, info
        info["equal"] = bool(sp.is_equal(y, back)) and back.n_bins == y.n_bins and back.dtype == y.dtype
        return not info["equal"], info
    if kind == "gameplan":
        import numpy as np
        from moptipyapps.ttp.instance import Instance
        from moptipyapps.ttp.game_plan import GamePlan
        from moptipyapps.ttp.game_plan_space import GamePlanSpace
        n, rounds = w["n"], w["rounds"]
        D = np.array([[0 if a == b else 1 + a + b for b in range(n)] for a in range(n)])
        inst = Instance("x", D, [f"t{i}" for i in range(n)], rounds, 1, 3, 1, 3, 1, rounds * n - 1)
        sp = GamePlanSpace(inst)
        y = sp.create()
        np.copyto(y, np.array(w["plan"]), casting="unsafe")
        info = {}
        try:
            txt = sp.to_str(y)
            info["first_line"] = txt.split("\n")[0]
            back = sp.from_str(txt)
        except ValueError as e:
            info["raised"] = str(e)[:150]
            return True, info
        info["equal"] = bool(sp.is_equal(y, back)) and back.dtype == y.dtype
        return not info["equal"], info
    raise ValueError(kind)


COMPACT_NAMES = ["i", "Pallet_B2", "X", "a04n", "cl01_020_01", "ZZ9", "mIxEd_Case_7"]


def job_compact(reps, name="i"):
    """`name` is concrete (strings are not symbolic here): the jobs cycle through names over the accepted alphabet -
    lower and upper case letters, digits, underscore"""
    to_c, from_c = compact_funcs()
    n = sum(reps)

    def h(eng):
        inst = P.make_instance(eng, reps, name=name)
        eng.pending = []
        txt = to_c(inst)
        try:
            back = from_c(txt)
        except ValueError as e:
            eng.oblige(False, "from_compact_str rejects what to_compact_str wrote: " + str(e)[:80], now=True)
            return "raised"
        eng.pending = []
        cs = [z3.BoolVal(back.name == inst.name), lift(back.bin_width) == inst.W.e, lift(back.bin_height) == inst.H.e,
              lift(back.n_items) == lift(inst.n_items), z3.BoolVal(back.n_different_items == inst.n_different_items),
              lift(back.total_item_area) == lift(inst.total_item_area), back.dtype.lo == inst.dtype.lo, back.dtype.hi == inst.dtype.hi]
        for i in range(len(reps)):
            for c in range(3):
                cs.append(lift(back[i, c]) == lift(inst[i, c]))
        eng.oblige(z3.And(*cs), "from_compact_str(to_compact_str(instance)) equals the instance", now=True)
        return "roundtrip"
    eng = Engine(timeout_ms=60000)
    eng.prefer = P.small_witness_prefs(len(reps))
    if sum(reps) > 1000:
        # many items: the real constructor's lower-bound routine is slow unless everything is tiny
        nd = len(reps)
        tiny = [z3.Int("W"), z3.Int("H")] + [z3.Int(f"w{i}") for i in range(nd)] + [z3.Int(f"h{i}") for i in range(nd)]
        eng.prefer = [z3.And(*[d <= 2 for d in tiny]), z3.And(*[d <= 4 for d in tiny])] + list(eng.prefer)
    ok = eng.explore(h)
    common = dict(paths=eng.paths, queries=dict(sat=eng.n_sat, unsat=eng.n_unsat, unknown=eng.unknown), solver_s=round(eng.t_solver, 2), vacuity=dict(outcomes=eng.outcomes))
    if eng.violations:
        v = eng.violations[0]
        md = {d.name(): v.model[d].as_long() for d in v.model.decls() if z3.is_int_value(v.model[d])}
        W, H, items = P.model_instance(md, reps)
        w = dict(kind="compact", W=W, H=H, items=[list(i) for i in items], label=v.label, name=name)
        bad, info = replay(w)
        w["observed"] = info
        if bad:
            return violated("instance_compact_str", "binpacking2d/instance.py:to_compact_str/from_compact_str", f"bin {W}x{H} items {items}: {info}", w, validated=1, **common)
        return inconclusive(f"model does not replay ({v.label}): {w}", **common)
    if not ok or not eng.outcomes.get("roundtrip"):
        return inconclusive(f"not conclusive {eng.stats()}", **common)
    return held(summary=f"compact string reps={reps} name={name!r}: {eng.paths} paths", sample=dict(reps=reps, name=name, sizes="symbolic up to 10^12"), **common)


def job_packing(reps):
    import moptipyapps.binpacking2d.packing_space as ps
    from moptipyapps.binpacking2d.packing import Packing
    ov = core.install_builtins(dict(check_int_range=P.s_check_int_range, Packing=core.ctor_shadow(Packing, lambda inst: P.make_packing(inst))))
    memo = {}
    to_s = xform.transform(ps.PackingSpace.to_str, ov, memo)
    from_s = xform.transform(ps.PackingSpace.from_str, ov, memo)
    validate = xform.transform(ps.PackingSpace.validate, ov, memo)
    create = xform.transform(ps.PackingSpace.create, ov, memo)
    n = sum(reps)

    def h(eng):
        inst = P.make_instance(eng, reps)
        x = fresh_array("x", (n, 6), dtype=inst.dtype, masq=Packing)
        x.instance = inst
        X = P.rows_of(x, n)
        k = fresh_int("k")
        eng.assume(z3.And(core.in_dtype(x), P.feasible(X, inst, inst.W.e, inst.H.e, k.e)))
        x.n_bins = eng.concretise(k.e)
        eng.pending = []
        shell = from_s._shell
        space = shell.__new__(shell)
        object.__setattr__(space, "instance", inst)
        # route self.create / self.validate of the shell object to the transformed versions
        shell.create = create
        shell.validate = validate
        txt = to_s(space, x)
        try:
            back = from_s(space, txt)
        except ValueError as e:
            eng.oblige(False, "from_str rejects the text of a feasible packing: " + str(e)[:80], now=True)
            return "raised"
        eng.pending = []
        cs = [z3.BoolVal(back.n_bins == x.n_bins) if isinstance(back.n_bins, int) else lift(back.n_bins) == x.n_bins]
        for i in range(n):
            for c in range(6):
                cs.append(lift(back[i, c]) == lift(x[i, c]))
        eng.oblige(z3.And(*cs), "from_str(to_str(packing)) equals the packing", now=True)
        return "roundtrip"
    eng = Engine(timeout_ms=60000)
    eng.prefer = P.small_witness_prefs(len(reps))
    ok = eng.explore(h)
    common = dict(paths=eng.paths, queries=dict(sat=eng.n_sat, unsat=eng.n_unsat, unknown=eng.unknown), solver_s=round(eng.t_solver, 2), vacuity=dict(outcomes=eng.outcomes))
    if eng.violations:
        v = eng.violations[0]
        md = {d.name(): v.model[d].as_long() for d in v.model.decls() if z3.is_int_value(v.model[d])}
        W, H, items = P.model_instance(md, reps)
        rows = [[int(md.get(f"x_{i * 6 + c}", 0)) for c in range(6)] for i in range(n)]
        w = dict(kind="packing", W=W, H=H, items=[list(i) for i in items], rows=rows, label=v.label)
        try:
            bad, info = replay(w)
        except Exception as ex:
            return inconclusive(f"replay raised {type(ex).__name__}: {ex}; {w}", **common)
        w["observed"] = info
        if bad:
            return violated("packing_text", "binpacking2d/packing_space.py:to_str/from_str", f"bin {W}x{H} items {items} rows {rows}: {info}", w, validated=1, **common)
        return inconclusive(f"model does not replay ({v.label}): {w}", **common)
    if not ok or not eng.outcomes.get("roundtrip"):
        return inconclusive(f"not conclusive {eng.stats()}", **common)
    return held(summary=f"packing text reps={reps}: {eng.paths} paths (every feasible packing)", sample=dict(reps=reps), **common)


class _Teams(tuple):
    """team names; a symbolic index returns a placeholder (the human-readable part of the text is not parsed back)"""

    def __getitem__(self, i):
        if isinstance(i, SymInt):
            return "T"
        return tuple.__getitem__(self, i)


def job_gameplan(n, rounds, pattern=0):
    import moptipyapps.ttp.game_plan as gp
    import moptipyapps.ttp.game_plan_space as gps
    from moptipyapps.ttp.instance import Instance as TInst
    from moptipy.utils.nputils import int_range_to_dtype
    days = (n - 1) * rounds
    dt = core.dtype_of(int_range_to_dtype(-n, n))

    class Inst:
        pass

    def new_plan(inst):
        a = fresh_array("gpnew", (days, n), dtype=dt, masq=gp.GamePlan)
        core.ENG.assume_fast(core.in_dtype(a))
        a.instance = inst
        return a
    ov = core.install_builtins(dict(GamePlan=core.ctor_shadow(gp.GamePlan, new_plan)))
    memo = {}
    to_str = xform.transform(gp.GamePlan.__str__, core.install_builtins())
    from_s = xform.transform(gps.GamePlanSpace.from_str, ov, memo)
    validate = xform.transform(gps.GamePlanSpace.validate, ov, memo)
    create = xform.transform(gps.GamePlanSpace.create, ov, memo)

    def h(eng):
        inst = Inst()
        inst.n_cities, inst.rounds, inst.game_plan_dtype, inst.teams = n, rounds, dt, _Teams(f"t{i}" for i in range(n))
        # the sign pattern of the plan is fixed per job (the human-readable part of the text branches on the sign of
        # every entry; only the first line is parsed back); magnitudes are symbolic
        cells = []
        cons = []
        for k in range(days * n):
            sg = [1, -1, 0][(k * (pattern + 1) + pattern + k // n) % 3] if pattern < 3 else (1 if pattern == 3 else -1)
            if sg == 0:
                cells.append(0)
            else:
                v = fresh_int(f"y_{k}")
                cons.append(z3.And(v.e >= 1, v.e <= n))
                cells.append(v if sg > 0 else -v)
        y = SymArray(cells, (days, n), name="y", dtype=dt, masq=gp.GamePlan)
        y.instance = inst
        eng.assume(z3.And(*cons))
        txt = to_str(y)
        shell = from_s._shell
        space = shell.__new__(shell)
        object.__setattr__(space, "instance", inst)
        shell.create = create
        shell.validate = validate
        try:
            back = from_s(space, txt)
        except ValueError as e:
            eng.oblige(False, "from_str rejects the text of a plan of the space: " + str(e)[:80], now=True)
            return "raised"
        eng.pending = []
        eng.oblige(z3.And(*[lift(back[d, t]) == lift(y[d, t]) for d in range(days) for t in range(n)]), "from_str(str(plan)) equals the plan", now=True)
        return "roundtrip"
    eng = Engine(timeout_ms=60000, max_paths=5000)
    ok = eng.explore(h)
    common = dict(paths=eng.paths, queries=dict(sat=eng.n_sat, unsat=eng.n_unsat, unknown=eng.unknown), solver_s=round(eng.t_solver, 2), vacuity=dict(outcomes=eng.outcomes))
    if eng.violations:
        v = eng.violations[0]
        md = {d.name(): v.model[d].as_long() for d in v.model.decls() if z3.is_int_value(v.model[d])}
        plan = []
        for d in range(days):
            row = []
            for t in range(n):
                k = d * n + t
                sg = [1, -1, 0][(k * (pattern + 1) + pattern + k // n) % 3] if pattern < 3 else (1 if pattern == 3 else -1)
                row.append(sg * md.get(f"y_{k}", 1))
            plan.append(row)
        w = dict(kind="gameplan", n=n, rounds=rounds, plan=plan, label=v.label)
        bad, info = replay(w)
        w["observed"] = info
        if bad:
            return violated("gameplan_text", "ttp/game_plan.py:__str__ + ttp/game_plan_space.py:from_str", f"plan {plan}: {info}", w, validated=1, **common)
        return inconclusive(f"model does not replay ({v.label}): {w}", **common)
    if not ok or not eng.outcomes.get("roundtrip"):
        return inconclusive(f"not conclusive {eng.stats()}", **common)
    return held(summary=f"game plan text n={n} rounds={rounds}: {eng.paths} paths", sample=dict(n=n, rounds=rounds), **common)


def job_selftest(seed):
    """concrete round trips through the real public API (incl. orderings and InstanceSpace, which are not encoded symbolically)"""
    import numpy as np
    rnd = random.Random(seed)
    cnt = 0
    for _ in range(40):
        W, H = rnd.randint(1, 10 ** rnd.randint(1, 3)), rnd.randint(1, 10 ** rnd.randint(1, 3))
        items = []
        for _i in range(rnd.randint(1, 4)):
            w = rnd.randint(1, min(W, H))
            h = rnd.randint(1, max(W, H))
            items.append([w, h, rnd.choice([1, 1, 2, 17])] if rnd.random() < 0.5 else [h, w, rnd.choice([1, 3])])
        w_ = dict(kind="compact", W=W, H=H, items=items)
        bad, info = replay(w_)
        cnt += 1
        if bad:
            w_["observed"] = info
            return violated("instance_compact_str", "binpacking2d/instance.py:to_compact_str/from_compact_str", f"{w_}", w_, validated=cnt, paths=cnt)
    # orderings
    try:
        from moptipyapps.order1d.instance import Instance as OInst
        from moptipyapps.order1d.space import OrderingSpace
        inst = OInst.from_sequence_and_distance([1, 5, 5, 9, 2, 14], lambda a, b: abs(a - b), 2, 10, ("v",), lambda o: f"o{o}")
        sp = OrderingSpace(inst)
        for _ in range(30):
            x = sp.create()
            p = list(range(inst.n))
            rnd.shuffle(p)
            x[:] = p
            back = sp.from_str(sp.to_str(x))
            cnt += 1
            if not sp.is_equal(x, back):
                w_ = dict(kind="ordering", x=p)
                return violated("ordering_text", "order1d/space.py:to_str/from_str", f"ordering {p} does not round-trip", w_, validated=cnt, paths=cnt)
    except ImportError:
        pass
    return held(validated=cnt, paths=cnt, queries={}, summary=f"self-test: {cnt} concrete round trips (instances incl. InstanceSpace, orderings) through the real API")


def jobs(tier):
    import os
    seed = int(os.environ.get("VERIF_SEED", "0") or 0)
    js = [Job("selftest", job_selftest, dict(seed=seed), "selftest", 600)]
    # multiplicities up to the constructor's limit (10^8 items of one type), around powers of ten
    for reps in ([1], [2], [1, 1], [1, 3], [2, 1], [1, 1, 1], [1, 2, 1], [1, 1_000_001], [100_000_000], [999_999, 10]) + (([2, 2, 1], [1, 1, 1, 1], [10_000_001, 1]) if tier == "thorough" else ()):
        nm = COMPACT_NAMES[len(js) % len(COMPACT_NAMES)]
        js.append(Job(f"compact/reps{'-'.join(map(str, reps))}/{nm}", job_compact, dict(reps=list(reps), name=nm), "instance_compact_str", 900))
    for reps in ([1], [2], [1, 1]) + (([1, 2], [1, 1, 1]) if tier == "thorough" else ()):
        js.append(Job(f"packing/reps{'-'.join(map(str, reps))}", job_packing, dict(reps=list(reps)), "packing_text", 1800))
    for n, r in ((2, 2), (4, 1), (4, 2)) + (((6, 1), (6, 2)) if tier == "thorough" else ()):
        for pat in range(5):
            js.append(Job(f"gameplan/n{n}/r{r}/p{pat}", job_gameplan, dict(n=n, rounds=r, pattern=pat), "gameplan_text", 900))
    return js


def meta(tier):
    return dict(
        bounds=dict(compact="instances with <= 3 item types (thorough 4), multiplicity 1 and > 1, sizes symbolic up to 10^12 (real constructor on both sides)",
                    packing="every feasible packing of <= 2 rows (thorough 3) through PackingSpace.to_str/from_str (from_str re-validates)",
                    gameplan="plans with entries -n..n for n in {2,4} (thorough 6): five fixed sign patterns (incl. byes), magnitudes symbolic; GamePlan.__str__ + GamePlanSpace.from_str"),
        outside=["CSV writers/readers of packing_result / packing_statistics (moptipy EndResult CSV, pycommons CSV scopes, float formatting: no bounded integer core)",
                 "OrderingSpace and InstanceSpace text forms symbolically (they delegate to moptipy's space code / to the compact string; covered only by the concrete self-test)",
                 "digit-level formatting (numbers are opaque atoms)", "Packing.__str__ (not parsed back by the library)"],
        assumptions=["str(int) / int(str) are inverse and emit no separator characters", "the human-readable part of a game plan text is ignored on read (team-name lookup stubbed for symbolic indices)"],
        stubs=["np.nditer / np.fromstring / np.copyto shims", "Instance / Packing / GamePlan constructors -> symbolic runs of the real constructors (GamePlan: allocation only)",
               "check_to_int_range re-implemented"])
