"""C01 - every decoded bin packing is physically feasible."""
from __future__ import annotations

import random
import time

import z3

from symx import core, xform, util, backend
from symx.core import Engine, SymArray, SymInt, fresh_array, fresh_int, lift, mk, Abort, DType
from symx.runner import Job, held, violated, inconclusive
from . import pack_common as P

PROP = "C01"


def encoders():
    import moptipyapps.binpacking2d.encodings.ibl_encoding_1 as e1
    import moptipyapps.binpacking2d.encodings.ibl_encoding_2 as e2
    out = {}
    for k, m, cls in ((1, e1, e1.ImprovedBottomLeftEncoding1), (2, e2, e2.ImprovedBottomLeftEncoding2)):
        out[k] = dict(init=xform.transform(cls.__init__), decode=xform.transform(cls.decode), mod=m, cls=cls)
    return out


def run_decode(eng, enc, E, inst, x):
    """public API path: Encoding(instance).decode(x, y) on a garbage-filled destination"""
    e = E[enc]
    obj = e["init"]._shell.__new__(e["init"]._shell)
    e["init"](obj, inst)
    y = P.make_packing(inst)
    xa = SymArray(list(x), (len(x),), name="x")
    e["decode"](obj, xa, y)
    return y


def replay(w):
    r = P.real_decode_guarded(w["enc"], w["W"], w["H"], w["items"], w["x"])
    if r.get("timeout"):
        return True, dict(why="the compiled decoder does not terminate within 60 s on this input", rows=None)
    if "error" in r:
        if "IndexError" in r["error"] or "ValueError" in r["error"]:
            return False, dict(why="raised: " + r["error"][-200:], rows=None)
        raise RuntimeError(r["error"])
    ok, why = P.py_feasible(r["rows"], [tuple(i) for i in w["items"]], w["W"], w["H"], r["n_bins"])
    return (not ok), dict(rows=r["rows"], n_bins=r["n_bins"], why=why, dtype=r["dtype"])


def job_whole(enc, reps, xs, maxdim=P.MAXDIM, timeout_s=600):
    """whole decoder through the public API; sizes fully symbolic, x enumerated"""
    E = encoders()
    n = sum(reps)
    tot = dict(paths=0, completed=0, sat=0, unsat=0, unknown=0, solver=0.0)
    t_end = time.time() + timeout_s
    for x in xs:
        def h(eng):
            inst = P.make_instance(eng, reps, maxdim=maxdim)
            y = run_decode(eng, enc, E, inst, x)
            eng.flush()
            X = P.rows_of(y, n)
            nb = lift(y.n_bins)
            eng.oblige(P.feasible(X, inst, inst.W.e, inst.H.e, nb), "decoded packing is feasible", now=True)
            return "decoded"
        eng = Engine(timeout_ms=60000, deadline=t_end)
        eng.prefer = P.small_witness_prefs(len(reps))
        ok = eng.explore(h)
        for k, v in (("paths", eng.paths), ("completed", eng.completed), ("sat", eng.n_sat), ("unsat", eng.n_unsat),
                     ("unknown", eng.unknown), ("solver", eng.t_solver)):
            tot[k] += v
        common = dict(paths=tot["paths"], queries=dict(sat=tot["sat"], unsat=tot["unsat"], unknown=tot["unknown"]),
                      solver_s=round(tot["solver"], 2))
        if eng.violations:
            v = eng.violations[0]
            md = {d.name(): v.model[d].as_long() for d in v.model.decls() if z3.is_int_value(v.model[d])}
            W, H, items = P.model_instance(md, reps)
            w = dict(enc=enc, W=W, H=H, items=[list(i) for i in items], x=list(x), label=v.label)
            try:
                bad, info = replay(w)
            except Exception as ex:
                return inconclusive(f"replay raised {type(ex).__name__}: {ex}; witness {w}", **common)
            w["observed"] = info
            if bad:
                return violated("feasible_packing", f"binpacking2d/encodings/ibl_encoding_{enc}.py",
                                f"encoding {enc}: bin {W}x{H}, items {items}, x={list(x)} -> {info['why']} rows={info.get('rows')}", w,
                                validated=1, **common)
            if v.label.startswith("value fits dtype") or v.label.startswith("index in range"):
                return inconclusive(f"obligation '{v.label}' fails symbolically for {w} but the decoded packing replays as feasible", **common)
            return inconclusive(f"model does not replay: '{v.label}' {w}", **common)
        if not ok or eng.completed == 0:
            return inconclusive(f"exploration not conclusive for x={x}: {eng.stats()}", **common)
    return held(summary=f"enc{enc} reps={reps}: {len(xs)} signed permutations, {tot['paths']} paths ({tot['completed']} decoded, rest rejected by the constructor)",
                sample=dict(enc=enc, reps=reps, xs=xs[:4], sizes="W,H,w_i,h_i symbolic in 1..10^12; dtype range a function of them"),
                **common)


def job_ctor_domain(reps):
    """the real constructor accepts exactly the documented domain, and its dtype holds every value the
    decoders can store (max_dim + max_size and n_items)"""
    n = sum(reps)

    def h(eng):
        try:
            inst = P.make_instance(eng, reps, assume_domain=False)
        except Abort:
            # rejected: the domain predicate must be false
            W, H = z3.Int("W"), z3.Int("H")
            items = [(z3.Int(f"w{i}"), z3.Int(f"h{i}"), reps[i]) for i in range(len(reps))]
            eng.oblige(z3.Not(P.instance_domain(W, H, items)), "constructor rejects only invalid instances", now=True)
            return "rejected"
        eng.flush()
        eng.oblige(P.instance_domain(inst.W.e, inst.H.e, inst.items), "constructor accepts only valid instances", now=True)
        dt = inst.dtype
        mx = z3.If(inst.W.e >= inst.H.e, inst.W.e, inst.H.e)
        big = mx
        for (w, h, r) in inst.items:
            big = z3.If(lift(w) > big, lift(w), big)
            big = z3.If(lift(h) > big, lift(h), big)
        eng.oblige(z3.And(dt.lo <= -1, dt.hi >= n + 1, dt.hi >= mx + 1), "dtype is signed and holds n_items+1 and max_dim+1", now=True)
        eng.oblige(z3.And(lift(inst.n_items) == n, lift(inst.bin_width) == inst.W.e, lift(inst.bin_height) == inst.H.e,
                          *[z3.And(lift(inst[i, 0]) == lift(inst.items[i][0]), lift(inst[i, 1]) == lift(inst.items[i][1]),
                                   lift(inst[i, 2]) == reps[i]) for i in range(len(reps))]),
                   "stored matrix and attributes equal the arguments", now=True)
        return "accepted"
    eng = Engine(timeout_ms=60000)
    ok = eng.explore(h)
    common = dict(paths=eng.paths, queries=dict(sat=eng.n_sat, unsat=eng.n_unsat, unknown=eng.unknown), solver_s=round(eng.t_solver, 2))
    if eng.violations:
        v = eng.violations[0]
        md = {d.name(): v.model[d].as_long() for d in v.model.decls() if z3.is_int_value(v.model[d])}
        W, H, items = P.model_instance(md, reps)
        from moptipyapps.binpacking2d.instance import Instance
        try:
            Instance("i", W, H, [list(i) for i in items])
            acc = True
        except ValueError:
            acc = False
        w = dict(W=W, H=H, items=[list(i) for i in items], label=v.label, real_constructor_accepts=acc, enc=1, x=[1])
        return inconclusive(f"constructor-domain mismatch ({v.label}): {w}", **common)
    if not ok or not eng.outcomes.get("accepted"):
        return inconclusive(f"constructor exploration not conclusive {eng.stats()}", **common)
    return held(summary=f"constructor domain reps={reps}: {eng.paths} paths {eng.outcomes}", sample=dict(reps=reps, outcomes=eng.outcomes), **common)


def job_selftest(seed):
    """translator validation: transformed source on concrete values vs compiled encoders"""
    E = encoders()
    rnd = random.Random(seed)
    cnt = bad = 0
    details = []
    for enc in (1, 2):
        d = xform.transform(E[enc]["mod"]._decode)
        for _ in range(60):
            W, H = rnd.randint(1, 12), rnd.randint(1, 12)
            if rnd.random() < 0.2:
                W, H = rnd.choice([(63, 63), (100, 20), (126, 1), (1, 126)])
            nd = rnd.randint(1, 3)
            items = []
            for _i in range(nd):
                while True:
                    w, h = rnd.randint(1, max(W, H)), rnd.randint(1, max(W, H))
                    if not (w > min(W, H) and h > min(W, H)):
                        break
                items.append((w, h, rnd.randint(1, 3)))
            base = [i + 1 for i, it in enumerate(items) for _k in range(it[2])]
            rnd.shuffle(base)
            x = [v * rnd.choice((1, -1)) for v in base]
            n = len(x)
            inst, yreal, rows, nb = P.real_decode(enc, W, H, items, x)
            eng = Engine()
            core.ENG = eng
            eng.pending = []
            ia = SymArray([v for it in items for v in it], (nd, 3), name="inst")
            y = SymArray([rnd.randint(-5, 5) for _q in range(n * 6)], (n, 6), name="y")
            if enc == 1:
                nb2 = d(SymArray(x, (n,), name="x"), y, ia, W, H)
            else:
                nb2 = d(SymArray(x, (n,), name="x"), y, ia, W, H, SymArray([rnd.randint(0, 5) for _q in range(n)], (n,), name="bs"),
                        SymArray([rnd.randint(0, 5) for _q in range(n)], (n,), name="be"))
            cnt += 1
            ok, why = P.py_feasible(rows, items, W, H, nb)
            if y.tolist() != rows or nb2 != nb or not ok:
                bad += 1
                details.append((enc, W, H, items, x, why))
    if bad:
        return inconclusive(f"self-test: {bad}/{cnt} differ: {details[:2]}")
    return held(validated=cnt, paths=cnt, queries={}, summary=f"self-test {cnt} concrete decodings: transformed source == compiled encoder, all feasible")


def _canonical(x, reps):
    """ids with equal multiplicity first appear in increasing order"""
    first = {}
    for k, v in enumerate(x):
        first.setdefault(abs(v), k)
    for a in range(1, len(reps) + 1):
        for b in range(a + 1, len(reps) + 1):
            if reps[a - 1] == reps[b - 1] and first[a] > first[b]:
                return False
    return True


def _chunks(lst, k):
    return [lst[i:i + k] for i in range(0, len(lst), k)]


def jobs(tier):
    import os
    seed = int(os.environ.get("VERIF_SEED", "0") or 0)
    js = [Job("selftest", job_selftest, dict(seed=seed), "selftest", 180)]
    nmax = 3 if tier == "quick" else 4
    for n in range(1, 4):
        for reps in P.compositions(n):
            js.append(Job(f"ctor-domain/reps{'-'.join(map(str, reps))}", job_ctor_domain, dict(reps=reps), "instance_domain", 600))
    for enc in (1, 2):
        for n in range(1, nmax + 1):
            for reps in P.compositions(n):
                xs = list(P.signed_perms(reps))
                if tier == "quick":
                    # symmetry reduction: item rows are interchangeable symbols, so only multiplicity vectors in
                    # non-increasing order and orderings up to relabelling of equal-multiplicity ids are run
                    if list(reps) != sorted(reps, reverse=True):
                        continue
                    xs = [x for x in xs if _canonical(x, reps)]
                per = 4 if n <= 3 else 2
                for ci, ch in enumerate(_chunks(xs, per)):
                    js.append(Job(f"whole/enc{enc}/reps{'-'.join(map(str, reps))}/{ci}", job_whole,
                                  dict(enc=enc, reps=reps, xs=ch, timeout_s=900 if n <= 3 else 3000), "feasible_packing",
                                  1000 if n <= 3 else 3300, weight=n))
    return js


def meta(tier):
    return dict(
        bounds=dict(items=f"<= {3 if tier == 'quick' else 4} items (every multiplicity vector, every signed permutation with repetition, enumerated)",
                    sizes="bin and item sizes fully symbolic in 1..10^12 (every storage class int8..int64 and its edges inside one query family)",
                    encodings=[1, 2], prior_state="destination packing, bin_starts, bin_ends start as arbitrary values of their dtype"),
        outside=["more items than the bound", "lower_bound part of the constructor (C03)"],
        assumptions=["quick tier only: item rows of the symbolic instance are interchangeable, so permutations are enumerated up to relabelling of ids with equal multiplicity (thorough enumerates all)",
                     "instances are those accepted by the real Instance.__new__ (run symbolically up to total_item_area; paths on which it raises are legitimate rejections)",
                     "int_range_to_dtype is modelled from moptipy's threshold table (validated against the real function at every boundary per run)",
                     "numba: int64 scalar arithmetic, stores truncate to the array dtype -> every store carries a fits-dtype obligation"],
        stubs=["np.ndarray -> SymArray; super().__new__ of Instance/Packing allocates a SymArray with unconstrained cells",
               "check_int_range re-implemented from its documentation (fork: returns / raises)", "sanitize_name runs natively on the concrete name"])
