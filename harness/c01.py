"""C01 - every decoded bin packing is physically feasible."""
from __future__ import annotations

import random
import time

import z3

from symx import core, xform, util, backend
from symx.core import Engine, SymArray, SymInt, fresh_array, fresh_int, lift, mk, Abort, DType
from symx.runner import Job, held, violated, inconclusive
from . import pack_common as P

PROP = "C01"


def encoders():
    import moptipyapps.binpacking2d.encodings.ibl_encoding_1 as e1
    import moptipyapps.binpacking2d.encodings.ibl_encoding_2 as e2
    out = {}
    for k, m, cls in ((1, e1, e1.ImprovedBottomLeftEncoding1), (2, e2, e2.ImprovedBottomLeftEncoding2)):
        out[k] = dict(init=xform.transform(cls.__init__), decode=xform.transform(cls.decode), mod=m, cls=cls)
    return out


def run_decode(eng, enc, E, inst, x):
    """public API path: Encoding(instance).decode(x, y) on a garbage-filled destination"""
    e = E[enc]
    obj = e["init"]._shell.__new__(e["init"]._shell)
    e["init"](obj, inst)
    y = P.make_packing(inst)
    xa = SymArray(list(x), (len(x),), name="x")
    e["decode"](obj, xa, y)
    return y


def replay(w):
    r = P.real_decode_guarded(w["enc"], w["W"], w["H"], w["items"], w["x"])
    if r.get("timeout"):
        return True, dict(why="the compiled decoder does not terminate within 60 s on this input", rows=None)
    if "error" in r:
        if "IndexError" in r["error"] or "ValueError" in r["error"]:
            return False, dict(why="raised: " + r["error"][-200:], rows=None)
        raise RuntimeError(r["error"])
    ok, why = P.py_feasible(r["rows"], [tuple(i) for i in w["items"]], w["W"], w["H"], r["n_bins"])
    return (not ok), dict(rows=r["rows"], n_bins=r["n_bins"], why=why, dtype=r["dtype"])


def job_whole(enc, reps, xs, maxdim=P.MAXDIM, timeout_s=600):
    """whole decoder through the public API; sizes fully symbolic, x enumerated"""
    E = encoders()
    n = sum(reps)
    tot = dict(paths=0, completed=0, sat=0, unsat=0, unknown=0, solver=0.0)
    t_end = time.time() + timeout_s
    for x in xs:
        def h(eng):
            inst = P.make_instance(eng, reps, maxdim=maxdim)
            y = run_decode(eng, enc, E, inst, x)
            eng.flush()
            X = P.rows_of(y, n)
            nb = lift(y.n_bins)
            eng.oblige(P.feasible(X, inst, inst.W.e, inst.H.e, nb), "decoded packing is feasible", now=True)
            return "decoded"
        eng = Engine(timeout_ms=60000, deadline=t_end)
        eng.prefer = P.small_witness_prefs(len(reps))
        ok = eng.explore(h)
        for k, v in (("paths", eng.paths), ("completed", eng.completed), ("sat", eng.n_sat), ("unsat", eng.n_unsat),
                     ("unknown", eng.unknown), ("solver", eng.t_solver)):
            tot[k] += v
        common = dict(paths=tot["paths"], queries=dict(sat=tot["sat"], unsat=tot["unsat"], unknown=tot["unknown"]),
                      solver_s=round(tot["solver"], 2))
        if eng.violations:
            v = eng.violations[0]
            md = {d.name(): v.model[d].as_long() for d in v.model.decls() if z3.is_int_value(v.model[d])}
            W, H, items = P.model_instance(md, reps)
            w = dict(enc=enc, W=W, H=H, items=[list(i) for i in items], x=list(x), label=v.label)
            try:
                bad, info = replay(w)
            except Exception as ex:
                return inconclusive(f"replay raised {type(ex).__name__}: {ex}; witness {w}", **common)
            w["observed"] = info
            if bad:
                return violated("feasible_packing", f"binpacking2d/encodings/ibl_encoding_{enc}.py",
                                f"encoding {enc}: bin {W}x{H}, items {items}, x={list(x)} -> {info['why']} rows={info.get('rows')}", w,
                                validated=1, **common)
            if v.label.startswith("value fits dtype") or v.label.startswith("index in range"):
                return inconclusive(f"obligation '{v.label}' fails symbolically for {w} but the decoded packing replays as feasible", **common)
            return inconclusive(f"model does not replay: '{v.label}' {w}", **common)
        if not ok or eng.completed == 0:
            return inconclusive(f"exploration not conclusive for x={x}: {eng.stats()}", **common)
    return held(summary=f"enc{enc} reps={reps}: {len(xs)} signed permutations, {tot['paths']} paths ({tot['completed']} decoded, rest rejected by the constructor)",
                sample=dict(enc=enc, reps=reps, xs=xs[:4], sizes="W,H,w_i,h_i symbolic in 1..10^12; dtype range a function of them"),
                **common)


def job_ctor_domain(reps):
    """the real constructor accepts exactly the documented domain, and its dtype holds every value the
    decoders can store (max_dim + max_size and n_items)"""
    n = sum(reps)

    def h(eng):
        try:
            inst = P.make_instance(eng, reps, assume_domain=False)
        except Abort:
            # rejected: the domain predicate must be false
            W, H = z3.Int("W"), z3.Int("H")
            items = [(z3.Int(f"w{i}"), z3.Int(f"h{i}"), reps[i]) for i in range(len(reps))]
            eng.oblige(z3.Not(P.instance_domain(W, H, items)), "constructor rejects only invalid instances", now=True)
            return "rejected"
        eng.flush()
        eng.oblige(P.instance_domain(inst.W.e, inst.H.e, inst.items), "constructor accepts only valid instances", now=True)
        dt = inst.dtype
        mx = z3.If(inst.W.e >= inst.H.e, inst.W.e, inst.H.e)
        big = mx
        for (w, h, r) in inst.items:
            big = z3.If(lift(w) > big, lift(w), big)
            big = z3.If(lift(h) > big, lift(h), big)
        eng.oblige(z3.And(dt.lo <= -1, dt.hi >= n + 1, dt.hi >= mx + 1), "dtype is signed and holds n_items+1 and max_dim+1", now=True)
        eng.oblige(z3.And(lift(inst.n_items) == n, lift(inst.bin_width) == inst.W.e, lift(inst.bin_height) == inst.H.e,
                          *[z3.And(lift(inst[i, 0]) == lift(inst.items[i][0]), lift(inst[i, 1]) == lift(inst.items[i][1]),
                                   lift(inst[i, 2]) == reps[i]) for i in range(len(reps))]),
                   "stored matrix and attributes equal the arguments", now=True)
        return "accepted"
    eng = Engine(timeout_ms=60000)
    ok = eng.explore(h)
    common = dict(paths=eng.paths, queries=dict(sat=eng.n_sat, unsat=eng.n_unsat, unknown=eng.unknown), solver_s=round(eng.t_solver, 2))
    if eng.violations:
        v = eng.violations[0]
        md = {d.name(): v.model[d].as_long() for d in v.model.decls() if z3.is_int_value(v.model[d])}
        W, H, items = P.model_instance(md, reps)
        from moptipyapps.binpacking2d.instance import Instance
        try:
            Instance("i", W, H, [list(i) for i in items])
            acc = True
        except ValueError:
            acc = False
        w = dict(W=W, H=H, items=[list(i) for i in items], label=v.label, real_constructor_accepts=acc, enc=1, x=[1])
        return inconclusive(f"constructor-domain mismatch ({v.label}): {w}", **common)
    if not ok or not eng.outcomes.get("accepted"):
        return inconclusive(f"constructor exploration not conclusive {eng.stats()}", **common)
    return held(summary=f"constructor domain reps={reps}: {eng.paths} paths {eng.outcomes}", sample=dict(reps=reps, outcomes=eng.outcomes), **common)


def settled(row, earlier):
    """the improved-bottom-left resting condition of a placed box w.r.t. the boxes placed before it in the same bin: it can move neither
    down (it stands on the floor or on a box it overlaps horizontally) nor left (it touches the wall or a box it overlaps vertically).
    Every row of a decoded packing satisfies it at the moment it is placed, and later rows never move earlier ones."""
    _, _b, l, bt, r, t = row
    down = [bt == 0] + [z3.And(e[5] == bt, e[2] < r, l < e[4]) for e in earlier]
    left = [l == 0] + [z3.And(e[4] == l, e[3] < t, bt < e[5]) for e in earlier]
    return z3.And(z3.Or(*down), z3.Or(*left))


def item_step_block():
    """body of the item loop of encoding 1's `_decode` plus the NAMES of its variables by role, read from the working tree's source
    (parameters by position; loop index / item from the `for` target; current bin id from the `return`; first row of the current
    bin = the other loop-carried local), so that renaming locals does not matter"""
    import ast
    import moptipyapps.binpacking2d.encodings.ibl_encoding_1 as e1
    fd, _ = xform.parse_fn(e1._decode)
    params = [a.arg for a in fd.args.args]
    body = xform.body_wo_doc(fd)
    loops = [st for st in body if isinstance(st, ast.For)]
    if len(params) != 5 or len(loops) != 1 or not isinstance(body[-1], ast.Return):
        raise core.StructureMismatch("ibl_encoding_1._decode: expected (x, y, instance, bin_width, bin_height), one item loop and a return")
    loop = loops[0]
    ret = [n.id for n in ast.walk(body[-1]) if isinstance(n, ast.Name) and n.id != "int"]
    pre = set()
    for st in body[:body.index(loop)]:
        if isinstance(st, (ast.Assign, ast.AugAssign)) or (isinstance(st, ast.AnnAssign) and st.value is not None):
            pre |= {n.id for n in ast.walk(st) if isinstance(n, ast.Name) and isinstance(n.ctx, ast.Store)}
    loaded = {n.id for st in loop.body for n in ast.walk(st) if isinstance(n, ast.Name) and isinstance(n.ctx, ast.Load)}
    carried = sorted((pre & loaded) - set(params))
    if len(ret) != 1 or ret[0] not in carried or len(carried) != 2:
        raise core.StructureMismatch(f"ibl_encoding_1._decode: loop-carried locals {carried}, returned {ret}")
    r = dict(x=params[0], y=params[1], instance=params[2], bin_width=params[3], bin_height=params[4], bin_id=ret[0],
             bin_start=[c for c in carried if c != ret[0]][0])
    tg = loop.target
    if isinstance(tg, ast.Tuple) and len(tg.elts) == 2 and all(isinstance(e, ast.Name) for e in tg.elts) and "enumerate" in ast.unparse(loop.iter):
        r["i"], r["item"] = tg.elts[0].id, tg.elts[1].id
    elif isinstance(tg, ast.Name) and "range" in ast.unparse(loop.iter):
        r["i"], r["item"] = tg.id, None          # the body reads x[i] itself
    else:
        raise core.StructureMismatch(f"ibl_encoding_1._decode: item loop header {ast.unparse(loop.target)} in {ast.unparse(loop.iter)}")
    blk = xform.extract_block(e1._decode, lambda d: [st for st in xform.body_wo_doc(d) if isinstance(st, ast.For)][0].body, name="item_step")
    return blk, r


def job_item_step(K, with_reference=False, timeout_s=1800):
    """Inductive step of encoding 1: the body of the item loop, started from an ARBITRARY feasible current bin holding K boxes
    (any sizes, any positions) with arbitrary garbage in the new row: afterwards the new row is a feasible placement of the
    item in the current bin, or the first box of a new bin; bookkeeping (bin_id, bin_start) stays consistent.  With
    with_reference (C14) the position must be the one the documented rule prescribes for that bin."""
    from . import ibl_reference as R
    step, RL = item_step_block()
    ref_place = xform.transform(R.ref_place, core.install_builtins(), {}, also=("ref_descent", "ref_left")) if with_reference else None

    def h(eng):
        W, H = fresh_int("W"), fresh_int("H")
        inst = fresh_array("inst", (1, 3))
        w0, h0 = inst[0, 0], inst[0, 1]
        mx = z3.If(W.e >= H.e, W.e, H.e)
        mn = z3.If(W.e >= H.e, H.e, W.e)
        eng.assume(z3.And(W.e >= 1, H.e >= 1, W.e <= P.MAXDIM, H.e <= P.MAXDIM, w0.e >= 1, h0.e >= 1, w0.e <= mx, h0.e <= mx,
                          z3.Not(z3.And(w0.e > mn, h0.e > mn))))
        y = fresh_array("y", (K + 1, 6))
        bin_id = fresh_int("bin_id")
        X = P.rows_of(y, K + 1)
        cs = [bin_id.e >= 1]
        for i in range(K):
            _, b, l, bt, r, t = X[i]
            cs += [b == bin_id.e, l >= 0, bt >= 0, r <= W.e, t <= H.e, l < r, bt < t]
            for j in range(i):
                _, b2, l2, bt2, r2, t2 = X[j]
                cs.append(z3.Or(r <= l2, r2 <= l, t <= bt2, t2 <= bt))
            cs.append(settled(X[i], [X[j] for j in range(i)]))       # resting condition (part of the invariant; re-established below)
        eng.assume(z3.And(*cs))
        item_id = fresh_int("item")
        eng.assume(z3.Or(item_id.e == 1, item_id.e == -1))
        pre_rows = [[mk(v) for v in X[i]] for i in range(K)]
        kw = {RL["bin_height"]: H, RL["bin_width"]: W, RL["bin_id"]: bin_id, RL["bin_start"]: 0, RL["i"]: K, RL["instance"]: inst, RL["y"]: y}
        if RL["item"] is not None:
            kw[RL["item"]] = item_id
        kw[RL["x"]] = core.SymArray([0] * K + [item_id], (K + 1,), name="x")      # for bodies that read x[i] themselves
        out = xform.call_block(step, **kw)
        eng.pending = [(l_, c) for l_, c in eng.pending if l_.startswith("index in range")]
        eng.flush()
        idd, b, l, bt, r, t = [lift(y[K, k]) for k in range(6)]
        nb, nbs = lift(out[RL["bin_id"]]), lift(out[RL["bin_start"]])
        same = z3.And(b == bin_id.e, nb == bin_id.e, nbs == 0)
        newb = z3.And(b == bin_id.e + 1, nb == bin_id.e + 1, nbs == K, l == 0, bt == 0)
        post = [idd == 1, l >= 0, bt >= 0, r <= W.e, t <= H.e,
                z3.Or(z3.And(r - l == w0.e, t - bt == h0.e), z3.And(r - l == h0.e, t - bt == w0.e)), z3.Or(same, newb)]
        for j in range(K):
            _, b2, l2, bt2, r2, t2 = [lift(v) for v in pre_rows[j]]
            post.append(z3.Or(b != b2, r <= l2, r2 <= l, t <= bt2, t2 <= bt))
            post.append(z3.And(*[lift(y[j, k]) == lift(pre_rows[j][k]) for k in range(6)]))       # earlier rows untouched
        newrow = (idd, b, l, bt, r, t)
        post.append(z3.If(b == bin_id.e, settled(newrow, [[lift(v) for v in pre_rows[j]] for j in range(K)]), z3.And(l == 0, bt == 0)))
        eng.oblige(z3.And(*post), "item step keeps the packing feasible, settled and the bookkeeping consistent", now=True)
        if with_reference:
            wq = z3.If(item_id.e < 0, h0.e, w0.e)
            hq = z3.If(item_id.e < 0, w0.e, h0.e)
            swap = z3.Or(wq > W.e, hq > H.e)
            wf, hf = mk(z3.If(swap, hq, wq)), mk(z3.If(swap, wq, hq))
            boxes = [tuple(pre_rows[j]) for j in range(K)]
            rl, rb, rr, rt = ref_place(boxes, wf, hf, W, H, 4 * K + 6)
            inside = z3.And(lift(rr) <= W.e, lift(rt) <= H.e)
            exp = z3.If(inside, z3.And(b == bin_id.e, l == lift(rl), bt == lift(rb), r == lift(rr), t == lift(rt)),
                        z3.And(b == bin_id.e + 1, l == 0, bt == 0, r == lift(wf), t == lift(hf)))
            eng.oblige(exp, "item lands where the documented bottom-left rule puts it", now=True)
        return "stepped"
    eng = Engine(timeout_ms=120000, deadline=time.time() + timeout_s)
    eng.prefer = [z3.And(z3.Int("W") <= 10, z3.Int("H") <= 10), z3.And(z3.Int("W") <= 40, z3.Int("H") <= 40), z3.And(z3.Int("W") <= 2000, z3.Int("H") <= 60)]
    ok = eng.explore(h)
    common = dict(paths=eng.paths, queries=dict(sat=eng.n_sat, unsat=eng.n_unsat, unknown=eng.unknown), solver_s=round(eng.t_solver, 2), vacuity=dict(outcomes=eng.outcomes))
    if eng.violations:
        v = eng.violations[0]
        md = {d.name(): v.model[d].as_long() for d in v.model.decls() if z3.is_int_value(v.model[d])}
        # turn the pre-state into an instance + permutation: one item type per pre-placed box is not enough to force positions,
        # so the witness is replayed at kernel level: call the real compiled _decode? it cannot start mid-run.  Use the whole
        # decoders on small instances found by a bounded concrete search around the model's sizes.
        wit = _search_decode_witness(md, with_reference)
        if wit is not None:
            clause = "follows_documented_rule" if with_reference and wit.get("kind") == "reference" else "feasible_packing"
            return violated(clause, "binpacking2d/encodings/ibl_encoding_1.py", f"item step ({v.label}) -> whole-decoder witness {wit}", wit, validated=1, **common)
        return inconclusive(f"item-step counterexample ({v.label}) starts from an intermediate state; no whole-decoder witness found by the bounded search: "
                            f"{ {k: md[k] for k in sorted(md) if not k.startswith('y_') or int(k[2:]) < 6 * K} }", **common)
    if not ok or not eng.outcomes.get("stepped"):
        return inconclusive(f"not conclusive {eng.stats()}", **common)
    return held(summary=f"encoding 1 item step from an arbitrary feasible bin with K={K} boxes{' vs reference rule' if with_reference else ''}: {eng.paths} paths",
                sample=dict(K=K, sizes="symbolic to 10^12", with_reference=with_reference), **common)


def item_step2_block():
    """body of the item loop of encoding 2's `_decode` and the names of its variables by role (parameters by position, loop index /
    item from the `for` target, number of bins in use from the `return`)"""
    import ast
    import moptipyapps.binpacking2d.encodings.ibl_encoding_2 as e2
    fd, _ = xform.parse_fn(e2._decode)
    params = [a.arg for a in fd.args.args]
    body = xform.body_wo_doc(fd)
    loops = [st for st in body if isinstance(st, ast.For)]
    ret = [n.id for n in ast.walk(body[-1]) if isinstance(n, ast.Name) and n.id != "int"] if body and isinstance(body[-1], ast.Return) else []
    if len(params) != 7 or len(loops) != 1 or len(ret) != 1:
        raise core.StructureMismatch("ibl_encoding_2._decode: expected (x, y, instance, bin_width, bin_height, bin_starts, bin_ends), one item loop and a return")
    r = dict(x=params[0], y=params[1], instance=params[2], bin_width=params[3], bin_height=params[4], bin_starts=params[5], bin_ends=params[6], bin_id=ret[0])
    tg = loops[0].target
    if isinstance(tg, ast.Tuple) and len(tg.elts) == 2 and all(isinstance(e, ast.Name) for e in tg.elts) and "enumerate" in ast.unparse(loops[0].iter):
        r["i"], r["item"] = tg.elts[0].id, tg.elts[1].id
    elif isinstance(tg, ast.Name) and "range" in ast.unparse(loops[0].iter):
        r["i"], r["item"] = tg.id, None
    else:
        raise core.StructureMismatch("ibl_encoding_2._decode: item loop header not recognised")
    blk = xform.extract_block(e2._decode, lambda d: [st for st in xform.body_wo_doc(d) if isinstance(st, ast.For)][0].body, name="item_step2")
    return blk, r


def growth_patterns(K):
    """bin ids of K already decoded rows: the first row opens bin 1, every later row is in a used bin or opens the next one"""
    out = []

    def rec(p):
        if len(p) == K:
            out.append(tuple(p))
            return
        for b in range(1, max(p) + 2):
            rec(p + [b])
    if K == 0:
        return [()]
    rec([1])
    return out


def job_item_step2(K, pattern, with_reference=False, timeout_s=1800):
    """Inductive step of encoding 2 (first fit over all open bins): the body of the item loop, started from an ARBITRARY feasible
    state with K rows distributed over the open bins as `pattern` says (any sizes, any positions; bin_starts / bin_ends are the
    index ranges the decoder maintains), garbage in the new row and behind the used part of the two index arrays.  Afterwards the
    new row is a feasible placement in one of the open bins or the first box of a new bin, the index ranges are updated, nothing
    else changed.  With with_reference (C14): it is the FIRST bin in which the documented rule finds a place, at that place."""
    from . import ibl_reference as R
    step, RL = item_step2_block()
    ref_place = xform.transform(R.ref_place, core.install_builtins(), {}, also=("ref_descent", "ref_left")) if with_reference else None
    B = max(pattern) if pattern else 0
    if B == 0:
        raise core.EngineError("encoding 2 always has one (possibly empty) bin")
    starts = [min(j for j in range(K) if pattern[j] == b) for b in range(1, B + 1)]
    ends = [max(j for j in range(K) if pattern[j] == b) + 1 for b in range(1, B + 1)]

    def h(eng):
        W, H = fresh_int("W"), fresh_int("H")
        inst = fresh_array("inst", (1, 3))
        w0, h0 = inst[0, 0], inst[0, 1]
        mx = z3.If(W.e >= H.e, W.e, H.e)
        mn = z3.If(W.e >= H.e, H.e, W.e)
        eng.assume(z3.And(W.e >= 1, H.e >= 1, W.e <= P.MAXDIM, H.e <= P.MAXDIM, w0.e >= 1, h0.e >= 1, w0.e <= mx, h0.e <= mx,
                          z3.Not(z3.And(w0.e > mn, h0.e > mn))))
        y0 = fresh_array("y", (K + 1, 6))
        cells = list(y0.cells)
        for j in range(K):
            cells[j * 6 + 1] = pattern[j]            # concrete bin ids (the pattern), everything else symbolic
        y = SymArray(cells, (K + 1, 6), name="y")
        X = P.rows_of(y, K + 1)
        cs = []
        for i in range(K):
            _, b, l, bt, r, t = X[i]
            cs += [l >= 0, bt >= 0, r <= W.e, t <= H.e, l < r, bt < t]
            for j in range(i):
                if pattern[i] == pattern[j]:
                    _, b2, l2, bt2, r2, t2 = X[j]
                    cs.append(z3.Or(r <= l2, r2 <= l, t <= bt2, t2 <= bt))
            cs.append(settled(X[i], [X[j] for j in range(i) if pattern[j] == pattern[i]]))       # resting condition within its bin
        eng.assume(z3.And(*cs))
        bs = SymArray(starts + [fresh_int(f"bsg{k}") for k in range(K + 1 - B)], (K + 1,), name="bin_starts")
        be = SymArray(ends + [fresh_int(f"beg{k}") for k in range(K + 1 - B)], (K + 1,), name="bin_ends")
        item_id = fresh_int("item")
        eng.assume(z3.Or(item_id.e == 1, item_id.e == -1))
        pre_rows = [[mk(v) if z3.is_expr(v) else v for v in X[i]] for i in range(K)]
        pre_bs, pre_be = list(bs.cells), list(be.cells)
        kw = {RL["bin_height"]: H, RL["bin_width"]: W, RL["bin_id"]: B, RL["i"]: K, RL["instance"]: inst, RL["y"]: y,
              RL["bin_starts"]: bs, RL["bin_ends"]: be, RL["x"]: SymArray([0] * K + [item_id], (K + 1,), name="x")}
        if RL["item"] is not None:
            kw[RL["item"]] = item_id
        out = xform.call_block(step, **kw)
        eng.pending = [(l_, c) for l_, c in eng.pending if l_.startswith("index in range")]
        eng.flush()
        idd, b, l, bt, r, t = [lift(y[K, k]) for k in range(6)]
        nb = lift(out[RL["bin_id"]])
        post = [idd == 1, l >= 0, bt >= 0, r <= W.e, t <= H.e, b >= 1, b <= B + 1,
                z3.Or(z3.And(r - l == w0.e, t - bt == h0.e), z3.And(r - l == h0.e, t - bt == w0.e)),
                z3.If(b == B + 1, z3.And(nb == B + 1, l == 0, bt == 0), nb == B)]
        for j in range(K):
            _, _b2, l2, bt2, r2, t2 = [lift(v) for v in pre_rows[j]]
            post.append(z3.Or(b != pattern[j], r <= l2, r2 <= l, t <= bt2, t2 <= bt))
            post.append(z3.And(*[lift(y[j, k]) == lift(pre_rows[j][k]) for k in range(6)]))       # earlier rows untouched
        for k in range(B):          # index ranges: the chosen bin's end moves behind the new row, the others stay
            post.append(lift(bs[k]) == starts[k])
            post.append(lift(be[k]) == z3.If(b == k + 1, K + 1, ends[k]))
        post.append(z3.Implies(b == B + 1, z3.And(lift(bs[B]) == K, lift(be[B]) == K + 1)))
        newrow = (idd, b, l, bt, r, t)
        for bb in range(1, B + 1):
            post.append(z3.Implies(b == bb, settled(newrow, [[lift(v) for v in pre_rows[j]] for j in range(K) if pattern[j] == bb])))
        for k in range(B + 1, K + 1):
            post.append(z3.And(lift(bs[k]) == lift(pre_bs[k]), lift(be[k]) == lift(pre_be[k])))
        eng.oblige(z3.And(*post), "item step keeps the packing feasible and the index ranges consistent", now=True)
        if with_reference:
            wq = z3.If(item_id.e < 0, h0.e, w0.e)
            hq = z3.If(item_id.e < 0, w0.e, h0.e)
            swap = z3.Or(wq > W.e, hq > H.e)
            wf, hf = mk(z3.If(swap, hq, wq)), mk(z3.If(swap, wq, hq))
            exp = z3.And(b == B + 1, l == 0, bt == 0, r == lift(wf), t == lift(hf))
            for bb in range(B, 0, -1):       # first fit: the lowest bin in which the rule's final position is inside the bin
                boxes = [tuple(pre_rows[j]) for j in range(K) if pattern[j] == bb]
                rl, rb, rr, rt = ref_place(boxes, wf, hf, W, H, 4 * len(boxes) + 6)
                inside = z3.And(lift(rr) <= W.e, lift(rt) <= H.e)
                exp = z3.If(inside, z3.And(b == bb, l == lift(rl), bt == lift(rb), r == lift(rr), t == lift(rt)), exp)
            eng.oblige(exp, "item lands in the first bin, at the place, the documented rule prescribes", now=True)
        return "stepped"
    eng = Engine(timeout_ms=120000, deadline=time.time() + timeout_s, max_paths=20000)
    eng.prefer = [z3.And(z3.Int("W") <= 10, z3.Int("H") <= 10), z3.And(z3.Int("W") <= 40, z3.Int("H") <= 40), z3.And(z3.Int("W") <= 2000, z3.Int("H") <= 60)]
    ok = eng.explore(h)
    common = dict(paths=eng.paths, queries=dict(sat=eng.n_sat, unsat=eng.n_unsat, unknown=eng.unknown), solver_s=round(eng.t_solver, 2), vacuity=dict(outcomes=eng.outcomes))
    if eng.violations:
        v = eng.violations[0]
        md = {d.name(): v.model[d].as_long() for d in v.model.decls() if z3.is_int_value(v.model[d])}
        wit = _search_decode_witness(md, with_reference, enc=2)
        if wit is not None:
            clause = "follows_documented_rule" if with_reference and wit.get("kind") == "reference" else "feasible_packing"
            return violated(clause, "binpacking2d/encodings/ibl_encoding_2.py", f"item step ({v.label}) -> whole-decoder witness {wit}", wit, validated=1, **common)
        return inconclusive(f"item-step counterexample ({v.label}, pattern {pattern}) starts from an intermediate state; no whole-decoder witness found by the bounded search: "
                            f"{ {k: md[k] for k in sorted(md) if not k.startswith('y_') or int(k[2:]) < 6 * K} }", **common)
    if not ok or not eng.outcomes.get("stepped"):
        return inconclusive(f"not conclusive {eng.stats()}", **common)
    return held(summary=f"encoding 2 item step from an arbitrary feasible state, rows in bins {pattern}{' vs reference rule' if with_reference else ''}: {eng.paths} paths",
                sample=dict(K=K, pattern=list(pattern), sizes="symbolic to 10^12", with_reference=with_reference), **common)


def _search_decode_witness(md, with_reference, enc=1):
    """Whole-decoder witness for an inductive-step counterexample, searched with the REAL compiled decoder in one child process:
    (0) the model's boxes in row order followed by the new item, every sign pattern; (1) every sequence over the model's box sizes;
    (2) random small instances on the coordinate grid of the model.  Checked for feasibility (and against the reference)."""
    W, H = md.get("W", 5), md.get("H", 5)
    if W > 60 or H > 60:
        return None
    K = 0
    ordered = []
    while f"y_{K * 6}" in md:
        l, bt, r, t = md.get(f"y_{K * 6 + 2}", 0), md.get(f"y_{K * 6 + 3}", 0), md.get(f"y_{K * 6 + 4}", 0), md.get(f"y_{K * 6 + 5}", 0)
        if 0 < r - l <= max(W, H) and 0 < t - bt <= max(W, H):
            ordered.append((r - l, t - bt))
        K += 1
    ordered = ordered[:-1] if len(ordered) == K and K > 0 else ordered     # the last row is the (garbage) destination of the new item
    ordered.append((md.get("inst_0", 1), md.get("inst_1", 1)))
    ok_size = lambda s_: not (s_[0] > min(W, H) and s_[1] > min(W, H)) and s_[0] <= max(W, H) and s_[1] <= max(W, H)
    ordered = [s_ for s_ in ordered if ok_size(s_)]
    xs, ys = {0, W}, {0, H}
    for j in range(K):
        xs |= {md.get(f"y_{j * 6 + 2}", 0), md.get(f"y_{j * 6 + 4}", 0)}
        ys |= {md.get(f"y_{j * 6 + 3}", 0), md.get(f"y_{j * 6 + 5}", 0)}
    xs = sorted(v for v in xs if 0 <= v <= W)
    ys = sorted(v for v in ys if 0 <= v <= H)
    ws = sorted({b_ - a_ for a_ in xs for b_ in xs if b_ > a_} | {md.get("inst_0", 1), md.get("inst_1", 1), 1})
    hs = sorted({b_ - a_ for a_ in ys for b_ in ys if b_ > a_} | {md.get("inst_0", 1), md.get("inst_1", 1), 1})
    grid = [(w, h) for w in ws for h in hs if ok_size((w, h)) and ((w <= W and h <= H) or (h <= W and w <= H))]
    wit, tried = P.grid_search(enc, W, H, grid[:60], with_reference, budget_s=90, ordered=ordered)
    return wit


def job_selftest(seed):
    """translator validation: transformed source on concrete values vs compiled encoders"""
    E = encoders()
    rnd = random.Random(seed)
    cnt = bad = 0
    details = []
    for enc in (1, 2):
        d = xform.transform(E[enc]["mod"]._decode)
        for _ in range(60):
            W, H = rnd.randint(1, 12), rnd.randint(1, 12)
            if rnd.random() < 0.2:
                W, H = rnd.choice([(63, 63), (100, 20), (126, 1), (1, 126)])
            nd = rnd.randint(1, 3)
            items = []
            for _i in range(nd):
                while True:
                    w, h = rnd.randint(1, max(W, H)), rnd.randint(1, max(W, H))
                    if not (w > min(W, H) and h > min(W, H)):
                        break
                items.append((w, h, rnd.randint(1, 3)))
            base = [i + 1 for i, it in enumerate(items) for _k in range(it[2])]
            rnd.shuffle(base)
            x = [v * rnd.choice((1, -1)) for v in base]
            n = len(x)
            inst, yreal, rows, nb = P.real_decode(enc, W, H, items, x)
            eng = Engine()
            core.ENG = eng
            eng.pending = []
            ia = SymArray([v for it in items for v in it], (nd, 3), name="inst")
            y = SymArray([rnd.randint(-5, 5) for _q in range(n * 6)], (n, 6), name="y")
            if enc == 1:
                nb2 = d(SymArray(x, (n,), name="x"), y, ia, W, H)
            else:
                nb2 = d(SymArray(x, (n,), name="x"), y, ia, W, H, SymArray([rnd.randint(0, 5) for _q in range(n)], (n,), name="bs"),
                        SymArray([rnd.randint(0, 5) for _q in range(n)], (n,), name="be"))
            cnt += 1
            ok, why = P.py_feasible(rows, items, W, H, nb)
            if y.tolist() != rows or nb2 != nb or not ok:
                bad += 1
                details.append((enc, W, H, items, x, why))
    if bad:
        return inconclusive(f"self-test: {bad}/{cnt} differ: {details[:2]}")
    return held(validated=cnt, paths=cnt, queries={}, summary=f"self-test {cnt} concrete decodings: transformed source == compiled encoder, all feasible")


def _canonical(x, reps):
    """ids with equal multiplicity first appear in increasing order"""
    first = {}
    for k, v in enumerate(x):
        first.setdefault(abs(v), k)
    for a in range(1, len(reps) + 1):
        for b in range(a + 1, len(reps) + 1):
            if reps[a - 1] == reps[b - 1] and first[a] > first[b]:
                return False
    return True


def _chunks(lst, k):
    return [lst[i:i + k] for i in range(0, len(lst), k)]


def jobs(tier):
    import os
    seed = int(os.environ.get("VERIF_SEED", "0") or 0)
    js = [Job("selftest", job_selftest, dict(seed=seed), "selftest", 180)]
    for K in (1, 2, 3, 4) + ((5,) if tier == "thorough" else ()):
        js.append(Job(f"item-step/enc1/K{K}", job_item_step, dict(K=K, timeout_s=1500 if tier == "quick" else 3300), "feasible_packing", 1700 if tier == "quick" else 3500, weight=K, optional=True))
    for K in (1, 2, 3) + ((4,) if tier == "thorough" else ()):
        for pat in growth_patterns(K):
            js.append(Job(f"item-step/enc2/K{K}/{''.join(map(str, pat))}", job_item_step2, dict(K=K, pattern=list(pat), timeout_s=1500 if tier == "quick" else 3300),
                          "feasible_packing", 1700 if tier == "quick" else 3500, weight=K, optional=True))
    for n in range(1, 4):
        for reps in P.compositions(n):
            js.append(Job(f"ctor-domain/reps{'-'.join(map(str, reps))}", job_ctor_domain, dict(reps=reps), "instance_domain", 600))
    for enc in (1, 2):
        for n in range(1, 4):
            for reps in P.compositions(n):
                xs = list(P.signed_perms(reps))
                if tier == "quick":
                    # symmetry reduction: item rows are interchangeable symbols, so only multiplicity vectors in
                    # non-increasing order and orderings up to relabelling of equal-multiplicity ids are run
                    if list(reps) != sorted(reps, reverse=True):
                        continue
                    xs = [x for x in xs if _canonical(x, reps)]
                for ci, ch in enumerate(_chunks(xs, 4)):
                    js.append(Job(f"whole/enc{enc}/reps{'-'.join(map(str, reps))}/{ci}", job_whole,
                                  dict(enc=enc, reps=reps, xs=ch, timeout_s=1500), "feasible_packing", 1700, weight=n))
        if tier == "thorough":
            # four items: measured 440 s (encoding 1) / 1135 s (encoding 2) per permutation on one core, so only the
            # all-distinct multiplicity vector, one ordering (rows are interchangeable) and selected sign patterns
            signs = list(__import__("itertools").product((1, -1), repeat=4)) if enc == 1 else [(1, 1, 1, 1), (-1, -1, -1, -1), (1, -1, 1, -1), (-1, 1, 1, -1)]
            for sg in signs:
                x = [(k + 1) * sg[k] for k in range(4)]
                js.append(Job(f"whole/enc{enc}/reps1-1-1-1/{''.join('+' if q > 0 else '-' for q in sg)}", job_whole,
                              dict(enc=enc, reps=[1, 1, 1, 1], xs=[x], timeout_s=3300), "feasible_packing", 3500, weight=10))
    return js


def meta(tier):
    return dict(
        bounds=dict(items="<= 3 items: every multiplicity vector and signed permutation with repetition (quick: up to relabelling); thorough adds four distinct items for 16 (encoding 1) / 4 (encoding 2) sign patterns",
                    sizes="bin and item sizes fully symbolic in 1..10^12 (every storage class int8..int64 and its edges inside one query family)",
                    item_step="encoding 1: the extracted body of the item loop from an arbitrary feasible current bin with K <= 3 (thorough 5) boxes of arbitrary sizes: covers runs of any "
                              "length in which no bin receives more than K+1 items (loop induction); encoding 2: the same from every distribution of K <= 3 (thorough 4) rows over the open bins "
                              "(all restricted-growth patterns), with the bin_starts / bin_ends ranges the decoder maintains",
                    encodings=[1, 2], prior_state="destination packing, bin_starts, bin_ends start as arbitrary values of their dtype"),
        outside=["more items than the bound", "lower_bound part of the constructor (C03)"],
        assumptions=["quick tier only: item rows of the symbolic instance are interchangeable, so permutations are enumerated up to relabelling of ids with equal multiplicity (thorough enumerates all)",
                     "instances are those accepted by the real Instance.__new__ (run symbolically up to total_item_area; paths on which it raises are legitimate rejections)",
                     "int_range_to_dtype is modelled from moptipy's threshold table (validated against the real function at every boundary per run)",
                     "numba: int64 scalar arithmetic, stores truncate to the array dtype -> every store carries a fits-dtype obligation"],
        stubs=["np.ndarray -> SymArray; super().__new__ of Instance/Packing allocates a SymArray with unconstrained cells",
               "check_int_range re-implemented from its documentation (fork: returns / raises)", "sanitize_name runs natively on the concrete name"])
