"""Shared machinery for the 2D bin-packing harnesses (C01, C02, C04, C13, C14)."""
from __future__ import annotations

import itertools

import z3

from symx import core, xform, util
from symx.core import (SymInt, SymBool, SymArray, DType, fresh_array, fresh_int, lift, mk, mkb, Abort, EngineError)

MAXDIM = 10 ** 12


# ---------------------------------------------------------------- shims of library helpers
def s_check_int_range(val, what="value", min_value=0, max_value=1_000_000_000):
    """pycommons.types.check_int_range: returns val or raises ValueError/TypeError (re-implemented from its
    documentation; the two outcomes are forked)"""
    if isinstance(val, SymBool):
        raise TypeError(f"{what} is bool")
    if not isinstance(val, (int, SymInt)) or isinstance(val, bool):
        raise TypeError(f"{what} should be an instance of int but is {type(val)}")
    if core.is_sym(val) or core.is_sym(min_value) or core.is_sym(max_value):
        ok = mkb(z3.And(lift(val) >= lift(min_value), lift(val) <= lift(max_value)))
        if ok:      # forks
            return val
        raise ValueError(f"{what} out of range")
    if not (min_value <= val <= max_value):
        raise ValueError(f"{what}={val} is invalid, must be in {min_value}..{max_value}.")
    return val


def dtype_table():
    """(name, lo, hi) rows of moptipy's int_range_to_dtype search order, read from the installed module and
    validated against the real function at every boundary"""
    import numpy as np
    import moptipy.utils.nputils as npu
    tab = [(t[0], int(t[1]), int(t[2])) for t in getattr(npu, "__INTS_AND_RANGES")]
    for dt, lo, hi in tab:
        for (mn, mx, fs) in ((0, hi, False), (lo if lo < 0 else 0, hi, lo < 0), (0, hi, True) if lo < 0 else (0, hi, False)):
            if mx <= 2 ** 63 - 1 or not fs:
                got = npu.int_range_to_dtype(mn, mx, fs)
                # model
                use_min = -1 if fs and mn >= 0 else mn
                exp = next(t[0] for t in tab if use_min >= t[1] and mx <= t[2])
                if got != exp:
                    raise EngineError(f"int_range_to_dtype model mismatch at {(mn, mx, fs)}: {got} vs {exp}")
    return tab


_TAB = []
FORCE_DTYPE = None      # when set, int_range_to_dtype returns it (a harness that bounds the sizes has checked that it is the one chosen)


def s_int_range_to_dtype(min_value, max_value, force_signed=False):
    """symbolic model of moptipy.utils.nputils.int_range_to_dtype: dtype whose range is an ite over the
    thresholds; 'no type fits' is a forked ValueError outcome"""
    if FORCE_DTYPE is not None:
        return FORCE_DTYPE
    if not _TAB:
        _TAB.extend(dtype_table())
    if not core.is_sym(min_value) and not core.is_sym(max_value):
        import moptipy.utils.nputils as npu
        return core.dtype_of(npu.int_range_to_dtype(int(min_value), int(max_value), force_signed))
    mn, mx = lift(min_value), lift(max_value)
    if mkb(mn > mx):
        raise ValueError("min_value must be <= max_value")
    use_min = z3.If(mn >= 0, z3.IntVal(-1), mn) if force_signed else mn
    conds = [z3.And(use_min >= lo, mx <= hi) for (_, lo, hi) in _TAB]
    if not mkb(z3.Or(*conds)):
        raise ValueError("integer range exceeds the numpy integer types")
    lo_e, hi_e = z3.IntVal(_TAB[-1][1]), z3.IntVal(_TAB[-1][2])
    for c, (_, lo, hi) in reversed(list(zip(conds, _TAB))[:-1]):
        lo_e = z3.If(c, z3.IntVal(lo), lo_e)
        hi_e = z3.If(c, z3.IntVal(hi), hi_e)
    d = DType(z3.simplify(lo_e), z3.simplify(hi_e), "int(range-dependent)")
    d.conds = conds
    return d


class _SuperProxy:
    """stands in for `super()` inside ndarray-subclass constructors: `.__new__(cls, shape, dtype)` allocates
    a SymArray with unconstrained cells (np.empty semantics) masquerading as the class"""

    def __init__(self, masq, name):
        object.__setattr__(self, "_masq", masq)
        object.__setattr__(self, "_name", name)

    def __getattribute__(self, attr):
        if attr == "__new__":
            masq = object.__getattribute__(self, "_masq")
            name = object.__getattribute__(self, "_name")

            def new(cls, shape, dtype):
                shape = tuple(s.__index__() for s in shape)
                arr = fresh_array(name, shape, dtype=dtype if isinstance(dtype, DType) else core.dtype_of(dtype), masq=masq)
                # np.empty semantics: arbitrary cells of the dtype.  For the instance matrix (every cell is overwritten
                # by the constructor) the range assumption is left out: unconstrained cells only over-approximate.
                if arr.dtype.lo is not None and name != "inst":
                    core.ENG.assume_fast(core.in_dtype(arr))
                return arr
            return new
        return object.__getattribute__(self, attr)


def rt_super_for(masq, name):
    def _rt_super():
        return _SuperProxy(masq, name)
    return _rt_super


# ---------------------------------------------------------------- the real constructor, symbolically
_CACHE = {}


def instance_ctor():
    """statements of the real binpacking2d.Instance.__new__ up to (and including) the assignment of
    total_item_area; the lower-bound part (C03) is not needed by the decoders and is cut here"""
    if "ctor" in _CACHE:
        return _CACHE["ctor"]
    import ast
    import moptipyapps.binpacking2d.instance as im
    ov = core.install_builtins(dict(check_int_range=s_check_int_range, int_range_to_dtype=s_int_range_to_dtype,
                                    _rt_super=rt_super_for(im.Instance, "inst")))

    def pick(fd):
        b = xform.body_wo_doc(fd)
        k = None
        for i, st in enumerate(b):
            if "total_item_area" in ast.unparse(st) and isinstance(st, ast.Assign):
                k = i
        if k is None:
            raise EngineError("Instance.__new__: total_item_area assignment not found")
        return b[:k + 1]
    f = xform.extract_block(im.Instance.__new__, pick, overrides=ov, name="instance_new")
    _CACHE["ctor"] = (f, im.Instance)
    return _CACHE["ctor"]


def packing_ctor():
    if "pctor" in _CACHE:
        return _CACHE["pctor"]
    import moptipyapps.binpacking2d.packing as pm
    ov = core.install_builtins(dict(_rt_super=rt_super_for(pm.Packing, "y")))
    f = xform.transform(pm.Packing.__new__, overrides=ov)
    _CACHE["pctor"] = (f, pm.Packing)
    return _CACHE["pctor"]


def instance_domain(W, H, items):
    """documented validity predicate of binpacking2d.Instance (hand-written; the constructor-domain job of
    C01 checks that the real constructor accepts exactly this set)"""
    mx = z3.If(W >= H, W, H)
    mn = z3.If(W >= H, H, W)
    cs = [W >= 1, W <= MAXDIM, H >= 1, H <= MAXDIM]
    for (w, h, r) in items:
        w, h = lift(w), lift(h)
        cs += [w >= 1, w <= mx, h >= 1, h <= mx, z3.Not(z3.And(w > mn, h > mn))]
    return z3.And(*cs)


def make_instance(eng, reps, name="i", maxdim=MAXDIM, assume_domain=True):
    """Run the real constructor on symbolic bin/item sizes with the given concrete multiplicities.
    With assume_domain the documented validity predicate is assumed first (so the constructor's range checks
    do not fork); paths on which the constructor raises end as legitimate outcomes (Abort)."""
    f, Instance = instance_ctor()
    W, H = fresh_int("W"), fresh_int("H")
    nd = len(reps)
    matrix = [[fresh_int(f"w{i}"), fresh_int(f"h{i}"), int(reps[i])] for i in range(nd)]
    if assume_domain:
        eng.assume(instance_domain(W.e, H.e, [(m[0], m[1], m[2]) for m in matrix]))
    try:
        out = xform.call_block(f, cls=Instance, name=name, bin_width=W, bin_height=H, matrix=matrix)
    except (ValueError, TypeError):
        raise Abort("constructor rejects")
    inst = out["obj"]
    inst.W, inst.H = W, H
    inst.items = [(matrix[i][0], matrix[i][1], int(reps[i])) for i in range(nd)]
    return inst


def make_packing(inst):
    f, Packing = packing_ctor()
    return f(Packing, inst)


# ---------------------------------------------------------------- declarative feasibility
def rows_of(y, n):
    return [[lift(y[i, k]) for k in range(6)] for i in range(n)]


def item_dim(inst, idd, col):
    """width/height of item id `idd` (z3 term, 1-based) of a symbolic instance"""
    nd = inst.shape[0]
    r = lift(inst[0, col])
    for k in range(1, nd):
        r = z3.If(idd == k + 1, lift(inst[k, col]), r)
    return r


def feasible(X, inst, W, H, nb, check_counts=True):
    """the C01 oracle: ids and multiplicities, dimensions in one of two orientations, inside the bin,
    pairwise disjoint per bin, bins 1..k all used, count == k"""
    n = len(X)
    nd = inst.shape[0]
    cs = []
    for i in range(n):
        idd, b, l, bt, r, t = X[i]
        cs += [idd >= 1, idd <= nd, b >= 1, b <= nb, l >= 0, bt >= 0, r <= W, t <= H, l < r, bt < t]
        wi, hi = item_dim(inst, idd, 0), item_dim(inst, idd, 1)
        cs.append(z3.Or(z3.And(r - l == wi, t - bt == hi), z3.And(r - l == hi, t - bt == wi)))
        for j in range(i):
            _, b2, l2, bt2, r2, t2 = X[j]
            cs.append(z3.Or(b != b2, r <= l2, r2 <= l, t <= bt2, t2 <= bt))
    if check_counts:
        for k in range(nd):
            cs.append(z3.Sum([z3.If(X[i][0] == k + 1, 1, 0) for i in range(n)]) == lift(inst[k, 2]))
    for k in range(1, n + 1):
        cs.append(z3.Implies(k <= nb, z3.Or(*[X[i][1] == k for i in range(n)])))
    cs += [nb >= 1, nb <= n]       # n rows can fill at most n bins
    return z3.And(*cs)


def py_feasible(rows, items, W, H, nb):
    """plain-python feasibility (replay side); items: list of (w, h, reps)"""
    n = len(rows)
    cnt = [0] * len(items)
    for i, (idd, b, l, bt, r, t) in enumerate(rows):
        if not (1 <= idd <= len(items)) or not (1 <= b <= nb):
            return False, f"row {i}: id/bin"
        w, h, _ = items[idd - 1]
        if not ((r - l == w and t - bt == h) or (r - l == h and t - bt == w)):
            return False, f"row {i}: size"
        if l < 0 or bt < 0 or r > W or t > H:
            return False, f"row {i}: outside bin"
        cnt[idd - 1] += 1
        for j in range(i):
            _, b2, l2, bt2, r2, t2 = rows[j]
            if b == b2 and not (r <= l2 or r2 <= l or t <= bt2 or t2 <= bt):
                return False, f"rows {j},{i} overlap"
    if cnt != [it[2] for it in items]:
        return False, "multiplicities"
    if set(r[1] for r in rows) != set(range(1, nb + 1)):
        return False, "bins not 1..k"
    return True, ""


def signed_perms(reps):
    """all signed permutations with repetition for the given multiplicities (ids 1..len(reps))"""
    base = []
    for i, r in enumerate(reps):
        base += [i + 1] * r
    seen = set()
    for p in itertools.permutations(base):
        if p in seen:
            continue
        seen.add(p)
        for signs in itertools.product((1, -1), repeat=len(p)):
            yield [a * s for a, s in zip(p, signs)]


def compositions(n):
    """multiplicity vectors summing to n (ordered)"""
    if n == 0:
        yield []
        return
    for first in range(1, n + 1):
        for rest in compositions(n - first):
            yield [first] + rest


def model_instance(model, reps):
    W, H = int(model.get("W", 1)), int(model.get("H", 1))
    items = [(int(model.get(f"w{i}", 1)), int(model.get(f"h{i}", 1)), int(reps[i])) for i in range(len(reps))]
    return W, H, items


def real_decode(enc, W, H, items, x, garbage=77):
    """decode through the public API of the real (compiled) encoding, from a garbage-filled destination"""
    import numpy as np
    from moptipyapps.binpacking2d.instance import Instance
    from moptipyapps.binpacking2d.packing import Packing
    if enc == 1:
        from moptipyapps.binpacking2d.encodings.ibl_encoding_1 import ImprovedBottomLeftEncoding1 as E
    else:
        from moptipyapps.binpacking2d.encodings.ibl_encoding_2 import ImprovedBottomLeftEncoding2 as E
    inst = Instance("i", W, H, [list(it) for it in items])
    e = E(inst)
    y = Packing(inst)
    y.fill(min(garbage, int(np.iinfo(y.dtype).max)))
    e.decode(np.array(x, dtype=np.int64), y)
    return inst, y, [[int(v) for v in row] for row in y], int(y.n_bins)


_DECODE_CODE = """
import sys, json
sys.path.insert(0, %r)
from harness import pack_common as P
inst, y, rows, nb = P.real_decode(W["enc"], W["W"], W["H"], [tuple(i) for i in W["items"]], W["x"])
print("RESULT " + json.dumps(dict(rows=rows, n_bins=nb, dtype=str(y.dtype))))
"""


def real_decode_guarded(enc, W, H, items, x, timeout=60):
    """real_decode in a fresh interpreter with a time limit: the compiled kernel may not terminate on a
    counterexample (wrapped coordinates).  Returns dict(rows, n_bins, dtype) or dict(timeout=True) / dict(error=...)"""
    import json
    import os
    import subprocess
    root = os.path.dirname(os.path.dirname(os.path.abspath(__file__)))
    py = os.path.join(root, ".venv", "bin", "python")
    payload = json.dumps(dict(enc=enc, W=W, H=H, items=[list(i) for i in items], x=list(x)))
    code = "import sys, json\nW = json.loads(sys.argv[1])\n" + (_DECODE_CODE % root)
    try:
        p = subprocess.run([py, "-c", code, payload], capture_output=True, text=True, timeout=timeout)
    except subprocess.TimeoutExpired:
        return dict(timeout=True)
    for line in p.stdout.splitlines():
        if line.startswith("RESULT "):
            return json.loads(line[7:])
    return dict(error=(p.stderr or p.stdout)[-400:])


_SEARCH_CODE = """
import sys, json, time, random, itertools
sys.path.insert(0, @ROOT@)
from harness import pack_common as P
from harness import ibl_reference as R
A = json.loads(sys.argv[1])
enc, W, H, sizes, with_ref, budget = A["enc"], A["W"], A["H"], [tuple(s) for s in A["sizes"]], A["with_reference"], A["budget_s"]
ordered = [tuple(s) for s in A.get("ordered", [])]
rnd = random.Random(A.get("seed", 0))
t0 = time.time()
tried = 0
found = None


def attempt(items, x, W=None, H=None):
    global tried, found
    W = A["W"] if W is None else W
    H = A["H"] if H is None else H
    tried += 1
    try:
        inst, y, rows, nb = P.real_decode(enc, W, H, items, x)
    except (ValueError, IndexError):
        return
    ok, why = P.py_feasible(rows, items, W, H, nb)
    if not ok:
        found = dict(kind="feasibility", enc=enc, W=W, H=H, items=[list(i) for i in items], x=list(x), observed=dict(rows=rows, n_bins=nb, why=why))
    elif with_ref:
        exp, enb = (R.ref_decode_1 if enc == 1 else R.ref_decode_2)(list(x), [(w, h) for (w, h, _) in items], W, H, 10 * len(x) + 10)
        if [list(r) for r in exp] != rows or enb != nb:
            found = dict(kind="reference", enc=enc, W=W, H=H, items=[list(i) for i in items], x=list(x), observed=dict(decoded=rows, expected=[list(r) for r in exp]))


def as_instance(seq):
    # a sequence of (w, h) boxes -> item types (equal sizes up to rotation share a type) and the id sequence
    types, ids = [], []
    for (w, h) in seq:
        key = (w, h) if (w, h) in types else ((h, w) if (h, w) in types else None)
        if key is None:
            types.append((w, h))
            key = (w, h)
        ids.append((types.index(key) + 1) * (1 if key == (w, h) else -1))
    items = [(w, h, sum(1 for i in ids if abs(i) == k + 1)) for k, (w, h) in enumerate(types)]
    return items, ids


# phase 0: the boxes of the step model in row order, then the new item (all sign patterns)
if ordered:
    items, ids = as_instance(ordered)
    for signs in itertools.product((1, -1), repeat=len(ids)):
        if found is not None or time.time() - t0 > budget / 3:
            break
        attempt(items, [i * s_ for i, s_ in zip(ids, signs)])
# phase 1: every sequence of up to len(ordered) boxes over the model's sizes
if found is None and ordered:
    base = sorted(set(ordered))
    for k in range(2, len(ordered) + 1):
        for seq in itertools.product(base, repeat=k):
            if found is not None or time.time() - t0 > 2 * budget / 3:
                break
            items, ids = as_instance(seq)
            attempt(items, ids)
            if found is None:
                attempt(items, [-i for i in ids])
# phase 2: random small instances - alternately on the coordinate grid of the model and uniformly random tiny bins
flip = 0
while time.time() - t0 < budget and found is None:
    flip += 1
    W2, H2 = A["W"], A["H"]
    if flip % 2 and len(sizes) >= 2:
        k = rnd.randint(2, 4)
        types = rnd.sample(sizes, min(k, len(sizes)))
    else:
        W2, H2 = rnd.randint(3, 10), rnd.randint(3, 10)
        mx, mn = max(W2, H2), min(W2, H2)
        types = []
        for _ in range(rnd.randint(2, 3)):
            w, h = rnd.randint(1, mx), rnd.randint(1, mx)
            if w > mn and h > mn:
                h = rnd.randint(1, mn)
            types.append((w, h))
        if not all((w <= W2 and h <= H2) or (h <= W2 and w <= H2) for (w, h) in types):
            continue
    items = [(w, h, rnd.choice((1, 1, 2, 2, 3))) for (w, h) in types]
    if sum(m for _, _, m in items) > 7:
        continue
    x = [i + 1 for i, it in enumerate(items) for _ in range(it[2])]
    rnd.shuffle(x)
    attempt(items, [v if rnd.random() < 0.5 else -v for v in x], W2, H2)
print("RESULT " + json.dumps(dict(found=found, tried=tried)))
"""


def grid_search(enc, W, H, sizes, with_reference, budget_s=60, seed=0, ordered=()):
    """Witness search for an inductive-step counterexample: random small instances whose item sizes come from the coordinate grid of
    the step model (so that edges line up the way they do in the model), decoded by the REAL compiled decoder in one child process
    (a hang only costs the time limit) and checked for feasibility / against the reference rule.  Returns (witness or None, tried)."""
    import json
    import os
    import subprocess
    root = os.path.dirname(os.path.dirname(os.path.abspath(__file__)))
    py = os.path.join(root, ".venv", "bin", "python")
    procs = []
    for k in range(6):          # six children with different random seeds; the first witness wins
        payload = json.dumps(dict(enc=enc, W=W, H=H, sizes=[list(s_) for s_ in sizes], with_reference=bool(with_reference), budget_s=budget_s, seed=seed + k,
                                  ordered=[list(o) for o in ordered] if k == 0 else []))
        procs.append(subprocess.Popen([py, "-c", _SEARCH_CODE.replace("@ROOT@", repr(root)), payload], stdout=subprocess.PIPE, stderr=subprocess.DEVNULL, text=True))
    found, tried = None, 0
    for p in procs:
        try:
            out, _ = p.communicate(timeout=budget_s + 90)
        except subprocess.TimeoutExpired:
            p.kill()
            continue
        for line in out.splitlines():
            if line.startswith("RESULT "):
                r = json.loads(line[7:])
                tried += r["tried"]
                if found is None and r["found"] is not None:
                    found = r["found"]
    return found, tried


def small_witness_prefs(nd):
    """preference constraints for counterexample models: the real constructor's lower-bound routine loops over
    0..bin_height/2, so replayable witnesses need a small bin height (and preferably small everything)"""
    W, H = z3.Int("W"), z3.Int("H")
    dims = [W, H] + [z3.Int(f"w{i}") for i in range(nd)] + [z3.Int(f"h{i}") for i in range(nd)]
    small_items = z3.And(*[d <= 40 for d in dims[2:]])
    return [z3.And(*[d <= 40 for d in dims]), z3.And(*[d <= 2000 for d in dims]), z3.And(H <= 60, W <= 10 ** 6, small_items),
            z3.And(H <= 60, small_items), z3.And(W <= 60, small_items), z3.And(H <= 60, W <= 10 ** 6), H <= 60, H <= 5000, H <= 10 ** 6]
