"""C14 - decoders follow the documented bottom-left rule, statelessly.

Differential harness: the real decoders (public API, garbage-filled destination and scratch arrays) against the
reference model of harness/ibl_reference.py, executed by the same engine on the same symbolic instance."""
from __future__ import annotations

import random
import time

import z3

from symx import core, xform, util, backend
from symx.core import Engine, SymArray, SymInt, fresh_array, fresh_int, lift, mk, Abort
from symx.runner import Job, held, violated, inconclusive
from . import pack_common as P
from . import c01
from . import ibl_reference as R

PROP = "C14"


def ref_funcs():
    ov = core.install_builtins()
    memo = {}
    also = ("ref_descent", "ref_left", "ref_place", "ref_oriented")
    d1 = xform.transform(R.ref_decode_1, ov, memo, also=also)
    d2 = xform.transform(R.ref_decode_2, ov, memo, also=also)
    return {1: d1, 2: d2}


def py_reference(enc, W, H, items, x):
    f = R.ref_decode_1 if enc == 1 else R.ref_decode_2
    rows, nb = f(list(x), [(w, h) for (w, h, _) in items], W, H, 10 * len(x) + 10)
    return [list(r) for r in rows], nb


def replay(w):
    r = P.real_decode_guarded(w["enc"], w["W"], w["H"], w["items"], w["x"])
    exp_rows, exp_nb = py_reference(w["enc"], w["W"], w["H"], [tuple(i) for i in w["items"]], w["x"])
    if r.get("timeout"):
        return True, dict(why="decoder does not terminate", expected=exp_rows)
    if "error" in r:
        raise RuntimeError(r["error"])
    # statelessness: decode a second, different permutation first with the same encoder/destination, then this one
    bad = (r["rows"] != exp_rows) or (r["n_bins"] != exp_nb)
    return bad, dict(decoded=r["rows"], n_bins=r["n_bins"], expected=exp_rows, expected_bins=exp_nb)


def job_diff(enc, reps, xs, timeout_s=900):
    E = c01.encoders()
    RF = ref_funcs()
    n = sum(reps)
    tot = dict(paths=0, completed=0, sat=0, unsat=0, unknown=0, solver=0.0)
    t_end = time.time() + timeout_s
    for x in xs:
        def h(eng):
            inst = P.make_instance(eng, reps)
            y = c01.run_decode(eng, enc, E, inst, x)
            eng.pending = []       # index/dtype obligations belong to C01/C13
            sizes = [(inst[i, 0], inst[i, 1]) for i in range(len(reps))]
            rows, nb = RF[enc](list(x), sizes, inst.W, inst.H, 4 * n + 6)
            cs = [lift(y.n_bins) == lift(nb)]
            for i in range(n):
                for k in range(6):
                    cs.append(lift(y[i, k]) == lift(rows[i][k]))
            eng.oblige(z3.And(*cs), "decoded packing equals the reference packing", now=True)
            return "compared"
        eng = Engine(timeout_ms=60000, deadline=t_end)
        eng.prefer = P.small_witness_prefs(len(reps))
        ok = eng.explore(h)
        for k, v in (("paths", eng.paths), ("completed", eng.completed), ("sat", eng.n_sat), ("unsat", eng.n_unsat),
                     ("unknown", eng.unknown), ("solver", eng.t_solver)):
            tot[k] += v
        common = dict(paths=tot["paths"], queries=dict(sat=tot["sat"], unsat=tot["unsat"], unknown=tot["unknown"]),
                      solver_s=round(tot["solver"], 2))
        if eng.violations:
            v = eng.violations[0]
            md = {d.name(): v.model[d].as_long() for d in v.model.decls() if z3.is_int_value(v.model[d])}
            W, H, items = P.model_instance(md, reps)
            w = dict(enc=enc, W=W, H=H, items=[list(i) for i in items], x=list(x), label=v.label)
            try:
                bad, info = replay(w)
            except Exception as ex:
                return inconclusive(f"replay raised {type(ex).__name__}: {ex}; {w}", **common)
            w["observed"] = info
            if bad:
                return violated("follows_documented_rule", f"binpacking2d/encodings/ibl_encoding_{enc}.py",
                                f"encoding {enc}: bin {W}x{H}, items {items}, x={list(x)}: decoded {info.get('decoded')} but the documented rule gives {info['expected']}",
                                w, validated=1, **common)
            return inconclusive(f"model does not replay: {w}", **common)
        if not ok or eng.completed == 0:
            return inconclusive(f"exploration not conclusive for x={x}: {eng.stats()}", **common)
    return held(summary=f"enc{enc} reps={reps}: {len(xs)} signed permutations, {tot['paths']} paths, real == reference",
                sample=dict(enc=enc, reps=reps, xs=xs[:4]), **common)


def job_stateless(seed):
    """history independence on the real compiled objects: reuse one encoder + destination for many decodings and
    compare each with a decoding by fresh objects (concrete cross-check of what the garbage-start harness shows)"""
    import numpy as np
    from moptipyapps.binpacking2d.instance import Instance
    from moptipyapps.binpacking2d.packing import Packing
    from moptipyapps.binpacking2d.encodings.ibl_encoding_1 import ImprovedBottomLeftEncoding1 as E1
    from moptipyapps.binpacking2d.encodings.ibl_encoding_2 import ImprovedBottomLeftEncoding2 as E2
    rnd = random.Random(seed)
    cnt = 0
    for E, enc in ((E1, 1), (E2, 2)):
        for _ in range(6):
            W, H = rnd.randint(3, 20), rnd.randint(3, 20)
            items = []
            for _i in range(rnd.randint(1, 4)):
                w, h = rnd.randint(1, min(W, H)), rnd.randint(1, max(W, H))
                items.append((w, h, rnd.randint(1, 4)))
            inst = Instance("i", W, H, [list(i) for i in items])
            e = E(inst)
            y = Packing(inst)
            base = [i + 1 for i, it in enumerate(items) for _k in range(it[2])]
            for _r in range(8):
                rnd.shuffle(base)
                x = [v * rnd.choice((1, -1)) for v in base]
                e.decode(np.array(x), y)
                got = [[int(v) for v in r] for r in y]
                exp, nb = py_reference(enc, W, H, items, x)
                cnt += 1
                if got != exp or int(y.n_bins) != nb:
                    w = dict(enc=enc, W=W, H=H, items=[list(i) for i in items], x=x, label="stateless reuse")
                    bad, info = replay(w)
                    if bad:
                        w["observed"] = info
                        return violated("follows_documented_rule", f"binpacking2d/encodings/ibl_encoding_{enc}.py", f"{w}", w, validated=cnt, paths=cnt)
                    w["observed"] = dict(reused_objects=got, expected=exp)
                    return violated("stateless", f"binpacking2d/encodings/ibl_encoding_{enc}.py",
                                    f"decoding with reused encoder/destination differs from a fresh decoding: {w}", w, validated=cnt, paths=cnt)
    return held(validated=cnt, paths=cnt, queries={}, summary=f"{cnt} decodings with reused encoder and destination equal the reference model")


def jobs(tier):
    import os
    seed = int(os.environ.get("VERIF_SEED", "0") or 0)
    js = [Job("stateless-reuse", job_stateless, dict(seed=seed), "stateless", 600)]
    for K in (1, 2, 3, 4):
        js.append(Job(f"item-step-vs-reference/enc1/K{K}", c01.job_item_step, dict(K=K, with_reference=True, timeout_s=1500 if tier == "quick" else 3300),
                      "follows_documented_rule", 1700 if tier == "quick" else 3500, weight=K, optional=True))
    for K in (1, 2, 3) + ((4,) if tier == "thorough" else ()):
        for pat in c01.growth_patterns(K):
            js.append(Job(f"item-step-vs-reference/enc2/K{K}/{''.join(map(str, pat))}", c01.job_item_step2,
                          dict(K=K, pattern=list(pat), with_reference=True, timeout_s=1500 if tier == "quick" else 3300),
                          "follows_documented_rule", 1700 if tier == "quick" else 3500, weight=K, optional=True))
    for enc in (1, 2):
        for n in range(1, 4):
            for reps in P.compositions(n):
                xs = list(P.signed_perms(reps))
                if tier == "quick":
                    if list(reps) != sorted(reps, reverse=True):
                        continue
                    xs = [x for x in xs if c01._canonical(x, reps)]
                for ci, ch in enumerate(c01._chunks(xs, 4)):
                    js.append(Job(f"diff/enc{enc}/reps{'-'.join(map(str, reps))}/{ci}", job_diff,
                                  dict(enc=enc, reps=reps, xs=ch, timeout_s=1500), "follows_documented_rule", 1700, weight=n))
        if tier == "thorough":
            signs = [(1, 1, 1, 1), (-1, -1, -1, -1), (1, -1, 1, -1), (-1, 1, 1, -1)] if enc == 1 else [(1, 1, 1, 1), (-1, 1, -1, 1)]
            for sg in signs:
                x = [(k + 1) * sg[k] for k in range(4)]
                js.append(Job(f"diff/enc{enc}/reps1-1-1-1/{''.join('+' if q > 0 else '-' for q in sg)}", job_diff,
                              dict(enc=enc, reps=[1, 1, 1, 1], xs=[x], timeout_s=3300), "follows_documented_rule", 3500, weight=10))
    return js


def meta(tier):
    return dict(
        bounds=dict(items="<= 3 items, every multiplicity vector and signed permutation (quick: up to relabelling); thorough adds four distinct items for a few sign patterns",
                    item_step="encoding 1: one item into an arbitrary feasible bin with K <= 3 (thorough 4) boxes lands exactly where the reference rule puts it (or opens a new bin); encoding 2: for every distribution of K <= 3 (thorough 4) rows "
                              "over the open bins the item lands in the FIRST bin in which the reference rule ends inside the bin, at that place",
                    sizes="bin and item sizes symbolic in 1..10^12", prior_state="destination packing and the encoder's scratch arrays start as arbitrary garbage; "
                          "the reference does not read them, so agreement implies independence from earlier decodings"),
        outside=["more items", "the reference model is my reading of the module documentation (harness/ibl_reference.py)"],
        assumptions=["instances accepted by the real constructor", "quick tier: permutations up to relabelling of ids with equal multiplicity"],
        stubs=["as C01", "reference model executed by the same engine (same AST pass)"])
