"""C15 - game permutations decode to consistent earliest-slot schedules."""
from __future__ import annotations

import random

import z3

from symx import backend, util, xform, core
from symx.core import SymArray, fresh_array, fresh_int, lift, mk, Engine
from symx.runner import Job, held, violated, inconclusive
from . import ttp_common as T

PROP = "C15"


def _mg():
    import moptipyapps.ttp.game_encoding as ge
    return xform.transform(ge.map_games), ge


def py_earliest(x, n, days):
    """reference decoder written from the documentation"""
    plan = [[0] * n for _ in range(days)]
    div = n - 1
    for g in x:
        h = (g // div) % n
        a = g % div
        if a >= h:
            a += 1
        for d in range(days):
            if plan[d][h] == 0 and plan[d][a] == 0:
                plan[d][h] = a + 1
                plan[d][a] = -(h + 1)
                break
    return plan


def real_decode(x, n, days):
    import numpy as np
    import moptipyapps.ttp.game_encoding as ge
    # the arrays the public spaces hand out: plan in the GamePlanSpace storage type, codes in the permutation space's
    from moptipy.utils.nputils import int_range_to_dtype
    y = np.full((days, n), 77, dtype=int_range_to_dtype(-n, n))     # garbage start
    ge.map_games(np.array(x, dtype=int_range_to_dtype(0, max(1, n * (n - 1) - 1))), y)
    return y.tolist()


def replay(w):
    n, rounds = w["n"], w["rounds"]
    days = (n - 1) * rounds
    if w["clause"] == "search_space":
        bad, info = check_search_space(n, rounds)
        return bad, info
    got = real_decode(w["x"], n, days)
    exp = py_earliest(w["x"], n, days)
    return got != exp, dict(decoded=got, expected=exp)


class NoFill(SymArray):
    def fill(self, v):
        pass


def job_step(n, rounds, timeout_s=300):
    """one game from an arbitrary consistent plan: earliest free day, both cells, nothing else"""
    mg, ge = _mg()
    days = (n - 1) * rounds
    bp = [int(v) for v in ge.search_space_for_n_and_rounds(n, rounds).blueprint]
    lo, hi = 0, n * (n - 1) - 1          # full game-code range (superset of every blueprint)

    def h(eng):
        x = fresh_array("x", (1,))
        y0 = fresh_array("y", (days, n))
        y = NoFill(list(y0.cells), (days, n), name="y")
        mg(x, y)
        return util.Box(x=x, y0=y0, y=y)
    eng, b = util.single_path(h)
    pre = [[lift(b.y0[d, t]) for t in range(n)] for d in range(days)]
    post = [[lift(b.y[d, t]) for t in range(n)] for d in range(days)]
    inv_pre = T.consistent(pre, n, days)
    cons = T.plan_domain(pre, n, days) + [inv_pre, lift(b.x[0]) >= lo, lift(b.x[0]) <= hi,
                                          util.obligations_formula(eng.collected, "index in range")]
    g = lift(b.x[0])
    hh = g / (n - 1)
    a0 = g % (n - 1)
    aa = z3.If(a0 >= hh, a0 + 1, a0)

    def cell(d, team):
        r = pre[d][0]
        for t in range(1, n):
            r = z3.If(team == t, pre[d][t], r)
        return r
    free = [z3.And(cell(d, hh) == 0, cell(d, aa) == 0) for d in range(days)]
    ok = [hh != aa, hh >= 0, hh < n, aa >= 0, aa < n]
    for d in range(days):
        first = z3.And(free[d], *[z3.Not(free[e]) for e in range(d)])
        for t in range(n):
            exp = z3.If(z3.And(first, hh == t), aa + 1, z3.If(z3.And(first, aa == t), -(hh + 1), pre[d][t]))
            ok.append(post[d][t] == exp)
    ok.append(T.consistent(post, n, days))
    ok += T.plan_domain(post, n, days)
    r = backend.solve(cons, z3.Not(z3.And(*ok)), timeout_s=timeout_s, label=f"step n={n} r={rounds}")
    tw = backend.solve(cons, z3.Or(*free), timeout_s=60, label="twin")
    q, st = util.qstats([r, tw])
    common = dict(paths=1, queries=q, solver_s=st, backend=repr(r), vacuity=dict(reach=tw.status),
                  summary=f"one-game step n={n} rounds={rounds}: {r.status} ({r.backend} {r.seconds:.1f}s)",
                  sample=dict(query="arbitrary consistent plan + arbitrary game code: game lands on the earliest day both teams are free, "
                                    "both cells written consistently, every other cell unchanged, invariant kept", n=n, rounds=rounds, answer=r.status))
    if tw.status != "sat":
        return inconclusive("vacuity twin", **common)
    if r.status == "unsat":
        return held(**common)
    if r.status == "unknown":
        return inconclusive("solver unknown " + r.detail, **common)
    # build a whole decoding that reaches the model's pre-state: games that create it, then the game
    m = r.model
    preplan = util.arr_from_model(m, "y", (days, n)).tolist()
    game = int(m.get("x_0", 0))
    xs = []
    for d in range(days):       # day-major order reproduces the plan only if it is "left-packed"; try and compare
        for t in range(n):
            v = preplan[d][t]
            if v > 0:
                hteam, ateam = t, v - 1
                code = hteam * (n - 1) + (ateam if ateam < hteam else ateam - 1)
                xs.append(code)
    cands = [xs + [game], [game], [game] * 2, xs[:1] + [game]]
    for cx in cands:
        w = dict(x=cx, n=n, rounds=rounds, clause="earliest_slot")
        bad, info = replay(w)
        if bad:
            w["observed"] = info
            return violated("earliest_slot", "ttp/game_encoding.py:map_games", f"decoding differs from the earliest-slot rule: {w}", w,
                            validated=1, **common)
    return inconclusive(f"step model (pre-state {preplan}, game {game}) does not reproduce through whole decodings", **common)


def job_prefix(n, rounds):
    """the real prefix (y.fill(0)) establishes the invariant from arbitrary garbage; zero games -> all zero"""
    mg, ge = _mg()
    days = (n - 1) * rounds

    def h(eng):
        x = fresh_array("x", (0,))
        y = fresh_array("y", (days, n))
        mg(x, y)
        return util.Box(y=y)
    eng, b = util.single_path(h)
    bad = [c for c in b.y.cells_list() if not (isinstance(c, int) and c == 0)]
    if bad:
        w = dict(x=[], n=n, rounds=rounds, clause="earliest_slot")
        isbad, info = replay(w)
        if isbad:
            return violated("earliest_slot", "ttp/game_encoding.py:map_games", f"empty game list does not give the empty plan: {info}", w, validated=1, paths=1)
        return inconclusive("prefix does not zero the plan symbolically but the real kernel does")
    return held(paths=1, queries={}, summary=f"prefix n={n} rounds={rounds}: plan zeroed from arbitrary garbage", sample=dict(prefix="y.fill(0)", n=n))


def job_whole(n, rounds, timeout_s=300):
    """whole-run cross-check: any sequence over the game codes against the declaratively defined plan"""
    mg, ge = _mg()
    days = (n - 1) * rounds
    G = len(ge.search_space_for_n_and_rounds(n, rounds).blueprint)

    def h(eng):
        x = fresh_array("x", (G,))
        y = fresh_array("y", (days, n))
        mg(x, y)
        return util.Box(x=x, y=y)
    eng, b = util.single_path(h)
    cons = [z3.And(lift(b.x[k]) >= 0, lift(b.x[k]) < n * (n - 1)) for k in range(G)]
    H, A = [], []
    for g in range(G):
        hh = lift(b.x[g]) / (n - 1)
        a0 = lift(b.x[g]) % (n - 1)
        H.append(hh)
        A.append(z3.If(a0 >= hh, a0 + 1, a0))
    day = [z3.Int(f"day{g}") for g in range(G)]
    spec = []
    for g in range(G):
        def busy(team, d, g=g):
            return z3.Or(*[z3.And(day[e] == d, z3.Or(H[e] == team, A[e] == team)) for e in range(g)]) if g else z3.BoolVal(False)
        free = [z3.And(z3.Not(busy(H[g], d)), z3.Not(busy(A[g], d))) for d in range(days)]
        spec.append(z3.And(day[g] >= 0, day[g] <= days))
        for d in range(days):
            spec.append((day[g] == d) == z3.And(free[d], *[z3.Not(free[e]) for e in range(d)]))
    ok = []
    for d in range(days):
        for t in range(n):
            val = z3.IntVal(0)
            for g in range(G):
                val = z3.If(z3.And(day[g] == d, H[g] == t), A[g] + 1, z3.If(z3.And(day[g] == d, A[g] == t), -(H[g] + 1), val))
            ok.append(lift(b.y[d, t]) == val)
    r = backend.solve(cons + spec, z3.Not(z3.And(*ok)), timeout_s=timeout_s, label=f"whole n={n} r={rounds}")
    q, st = util.qstats([r])
    common = dict(paths=1, queries=q, solver_s=st, backend=repr(r),
                  summary=f"whole decoding n={n} rounds={rounds} ({G} games, any code sequence): {r.status} ({r.backend} {r.seconds:.1f}s)",
                  sample=dict(query="exists game sequence whose decoded plan differs from the declarative earliest-slot plan", n=n, rounds=rounds, answer=r.status))
    if r.status == "unsat":
        return held(**common)
    if r.status == "unknown":
        return inconclusive("solver unknown " + r.detail, **common)
    xs = [int(r.model.get(f"x_{k}", 0)) for k in range(G)]
    w = dict(x=xs, n=n, rounds=rounds, clause="earliest_slot")
    bad, info = replay(w)
    w["observed"] = info
    if bad:
        return violated("earliest_slot", "ttp/game_encoding.py:map_games", f"decoding differs from the earliest-slot rule: {w}", w, validated=1, **common)
    return inconclusive(f"model does not replay {w}", **common)


def job_short(n, rounds, L, timeout_s=300, real_dtypes=False):
    """whole run on an arbitrary short code sequence (a prefix of a permutation): catches state carried
    between games that the one-game step cannot see.  With real_dtypes the plan and the code array carry the storage
    types the public spaces give them (int8 up to 127 teams/codes, ...), and every store into a typed array must fit."""
    mg, ge = _mg()
    days = (n - 1) * rounds
    xdt = ydt = None
    if real_dtypes:
        from moptipy.utils.nputils import int_range_to_dtype
        from symx import core
        ydt = core.dtype_of(int_range_to_dtype(-n, n))
        xdt = core.dtype_of(int_range_to_dtype(0, n * (n - 1) - 1))

    def h(eng):
        x = fresh_array("x", (L,), dtype=xdt)
        y = fresh_array("y", (days, n), dtype=ydt)
        mg(x, y)
        return util.Box(x=x, y=y, coll=None)
    eng, b = util.single_path(h)
    cons = [z3.And(lift(b.x[k]) >= 0, lift(b.x[k]) < n * (n - 1)) for k in range(L)]
    H, A = [], []
    for g in range(L):
        hh = lift(b.x[g]) / (n - 1)
        a0 = lift(b.x[g]) % (n - 1)
        H.append(hh)
        A.append(z3.If(a0 >= hh, a0 + 1, a0))
    day = [z3.Int(f"day{g}") for g in range(L)]
    spec = []
    for g in range(L):
        def busy(team, d, g=g):
            return z3.Or(*[z3.And(day[e] == d, z3.Or(H[e] == team, A[e] == team)) for e in range(g)]) if g else z3.BoolVal(False)
        free = [z3.And(z3.Not(busy(H[g], d)), z3.Not(busy(A[g], d))) for d in range(days)]
        spec.append(z3.And(day[g] >= 0, day[g] <= days))
        for d in range(days):
            spec.append((day[g] == d) == z3.And(free[d], *[z3.Not(free[e]) for e in range(d)]))
    ok = []
    for d in range(days):
        for t in range(n):
            val = z3.IntVal(0)
            for g in range(L):
                val = z3.If(z3.And(day[g] == d, H[g] == t), A[g] + 1, z3.If(z3.And(day[g] == d, A[g] == t), -(H[g] + 1), val))
            ok.append(lift(b.y[d, t]) == val)
    inr = z3.And(util.obligations_formula(eng.collected, "index in range"), util.obligations_formula(eng.collected, "value fits dtype"))
    r = backend.solve(cons + spec, z3.Not(z3.And(inr, *ok)), timeout_s=timeout_s, label=f"short n={n} r={rounds} L={L}")
    q, st = util.qstats([r])
    common = dict(paths=1, queries=q, solver_s=st, backend=repr(r),
                  summary=f"short sequence n={n} rounds={rounds} L={L}: {r.status} ({r.backend} {r.seconds:.1f}s)",
                  sample=dict(query=f"exists sequence of {L} game codes whose decoded plan differs from the earliest-slot plan", n=n, rounds=rounds, answer=r.status))
    if r.status == "unsat":
        return held(**common)
    if r.status == "unknown":
        return inconclusive("solver unknown " + r.detail, **common)
    xs = [int(r.model.get(f"x_{k}", 0)) for k in range(L)]
    # extend to a full permutation of the blueprint when the prefix is a sub-multiset of it
    bp = [int(v) for v in ge.search_space_for_n_and_rounds(n, rounds).blueprint]
    rest = list(bp)
    full = True
    for g in xs:
        if g in rest:
            rest.remove(g)
        else:
            full = False
    cands = ([xs + rest] if full else []) + [xs]
    for cx in cands:
        w = dict(x=cx, n=n, rounds=rounds, clause="earliest_slot", is_permutation_of_blueprint=(cx is not xs))
        bad, info = replay(w)
        if bad:
            w["observed"] = info
            return violated("earliest_slot", "ttp/game_encoding.py:map_games", f"decoding differs from the earliest-slot rule: {w}", w, validated=1, **common)
    return inconclusive(f"model does not replay {xs}", **common)


def check_search_space(n, rounds):
    import moptipyapps.ttp.game_encoding as ge
    bp = [int(v) for v in ge.search_space_for_n_and_rounds(n, rounds).blueprint]
    div = n - 1
    pair = {}
    home = [0] * n
    away = [0] * n
    for g in bp:
        h = (g // div) % n
        a = g % div
        if a >= h:
            a += 1
        if not (0 <= g < n * div) or h == a:
            return True, dict(bad_code=g)
        pair[(h, a)] = pair.get((h, a), 0) + 1
        home[h] += 1
        away[a] += 1
    info = dict(blueprint=bp if len(bp) <= 40 else bp[:40], home=home, away=away)
    for i in range(n):
        for j in range(i):
            a, b = pair.get((i, j), 0), pair.get((j, i), 0)
            if a + b != rounds or abs(a - b) > 1:
                info["pair"] = [i, j, a, b]
                return True, info
    # per team: home and away games differ by at most one (statement: "home/away counts per pairing and per team")
    for t in range(n):
        if abs(home[t] - away[t]) > 1:
            info["team"] = t
            return True, info
    if max(home) - min(home) > 1:      # documented fairness: no team has fewer than k-1 home games
        info["spread"] = max(home) - min(home)
        return True, info
    return False, info


def job_search_space(nmax, rmax):
    """configuration enumeration (not a solver verdict): counting properties of the real blueprint"""
    cnt = 0
    samples = []
    for n in range(2, nmax + 1):
        for r in range(1, rmax + 1):
            if (n, r) == (2, 1):
                continue
            bad, info = check_search_space(n, r)
            cnt += 1
            if len(samples) < 3:
                samples.append(dict(n=n, rounds=r, **{k: v for k, v in info.items() if k != "blueprint"}))
            if bad:
                w = dict(n=n, rounds=r, clause="search_space", x=[])
                return violated("search_space", "ttp/game_encoding.py:search_space_for_n_and_rounds",
                                f"blueprint for n={n} rounds={r} breaks the counting rule: {info}", w, validated=1, paths=cnt)
    return held(paths=cnt, validated=cnt, queries={}, summary=f"search space: {cnt} (n, rounds) configurations enumerated", sample=samples)


def job_selftest(seed):
    mg, ge = _mg()
    rnd = random.Random(seed)
    eng = Engine()
    core.ENG = eng
    cnt = bad = 0
    for (n, rounds) in ((2, 2), (3, 2), (4, 2), (5, 1), (6, 2), (4, 3)):
        days = (n - 1) * rounds
        bp = [int(v) for v in ge.search_space_for_n_and_rounds(n, rounds).blueprint]
        for _ in range(40):
            x = list(bp)
            rnd.shuffle(x)
            eng.pending = []
            y = SymArray([rnd.randint(-n, n) for _ in range(days * n)], (days, n), name="y")
            mg(SymArray(x, (len(x),), name="x"), y)
            a = y.tolist()
            cnt += 1
            if not (a == real_decode(x, n, days) == py_earliest(x, n, days)):
                bad += 1
    if bad:
        return inconclusive(f"self-test: {bad}/{cnt} differ")
    return held(validated=cnt, paths=cnt, queries={}, summary=f"self-test {cnt} permutations: transformed source == compiled kernel == reference decoder")


def jobs(tier):
    import os
    seed = int(os.environ.get("VERIF_SEED", "0") or 0)
    js = [Job("selftest", job_selftest, dict(seed=seed), "selftest", 300),
          Job("search-space", job_search_space, dict(nmax=8 if tier == "quick" else 12, rmax=5 if tier == "quick" else 7), "search_space", 600)]
    sizes = [(n, r) for n in range(2, 9) for r in (1, 2) if (n, r) != (2, 1)]
    if tier == "thorough":
        # measured under load (16 jobs in parallel): n=7,r=4 246 s; n=8,r=3 222 s; n=9,r=2 196 s; n=10,r=1 102 s; beyond: unknown at 300 s
        sizes += [(n, r) for n in range(2, 8) for r in (3, 4) if not (n == 7 and r == 4)] + [(8, 3), (9, 1), (9, 2), (10, 1)]
    for n, r in sizes:
        js.append(Job(f"step/n{n}/r{r}", job_step, dict(n=n, rounds=r, timeout_s=300 if tier == "quick" else 900), "earliest_slot", 1200, optional=True))
        js.append(Job(f"prefix/n{n}/r{r}", job_prefix, dict(n=n, rounds=r), "earliest_slot", 300))
    for n, r, L in [(4, 2, 3), (4, 3, 3), (5, 2, 3), (4, 3, 4)] + ([(6, 2, 3), (6, 3, 4), (5, 3, 4), (4, 4, 5)] if tier == "thorough" else []):
        js.append(Job(f"short/n{n}/r{r}/L{L}", job_short, dict(n=n, rounds=r, L=L, timeout_s=600), "earliest_slot", 800))
    # storage-type boundaries: plans of 127/128/129 days (int8 plan, day numbers beyond int8), 128 teams (int16 plan and codes)
    for n, r, L in [(4, 43, 2), (3, 64, 2), (2, 127, 2)] + ([(66, 2, 2), (128, 1, 1), (12, 12, 2), (4, 86, 2)] if tier == "thorough" else []):
        js.append(Job(f"short-dtype/n{n}/r{r}/L{L}", job_short, dict(n=n, rounds=r, L=L, timeout_s=600, real_dtypes=True), "earliest_slot", 800))
    for n, r in [(2, 2), (3, 1), (3, 2)] + ([(4, 1), (2, 3), (2, 4)] if tier == "thorough" else []):
        js.append(Job(f"whole/n{n}/r{r}", job_whole, dict(n=n, rounds=r, timeout_s=600), "earliest_slot", 800))
    return js


def meta(tier):
    return dict(
        bounds=dict(step="one game from an arbitrary mutually consistent plan (entries -n..n, no self-play), any game code 0..n(n-1)-1; "
                         "n<=8, rounds<=2 (thorough: additionally rounds 3-4 up to n=7 (n=7: 3), (8,3), (9,1), (9,2), (10,1); larger sizes end in solver timeouts and are not claimed)",
                    short="arbitrary code sequences of length 3-4 (thorough 5), n<=5 (thorough 6), whole run vs declarative plan (state carried between games)",
                    short_dtype="arbitrary sequences of 2 codes with the plan and code arrays in the storage types the public spaces use, at the type boundaries: "
                                "127/128/129-day plans for 2, 3 and 4 teams (thorough: 66 teams x 2 rounds, 128 teams (int16), 12x12, 258 days); every store into a typed array must fit its type",
                    whole="any code sequence of blueprint length vs declarative plan for (2,2),(3,1),(3,2) (thorough adds (4,1),(2,3),(2,4))",
                    search_space="enumerated configurations 2<=n<=8, rounds<=5 (thorough 12, 7) - configuration enumeration, not a solver verdict"),
        outside=["n > 12", "whole-run equivalence beyond the listed sizes (covered by the step + induction)"],
        assumptions=["the decoded plan is the fold of the one-game step over x (loop induction); the step invariant is: entries in -n..n, mutual consistency, no self-play",
                     "game codes lie in 0..n(n-1)-1 (every blueprint value does; checked by the search-space job)"],
        stubs=["np.ndarray -> SymArray", "y.fill is disabled in the step harness to start from an arbitrary plan; the prefix job checks the real fill"])
