"""C18 - TSPLIB and tour files load to the matrices the format prescribes (partial: see meta.outside)."""
from __future__ import annotations

import itertools
import random
import time

import z3

from symx import core, xform, util, backend
from symx.core import Engine, SymArray, SymInt, SymBool, AtomStr, atom_of, fresh_array, fresh_int, lift, mk, Abort, INT64
from symx.runner import Job, held, violated, inconclusive
from . import pack_common as P
from . import c05, c09

PROP = "C18"
FORMATS = ["FULL_MATRIX", "UPPER_ROW", "LOWER_DIAG_ROW", "UPPER_DIAG_ROW"]


def count_for(fmt, n):
    return {"FULL_MATRIX": n * n, "UPPER_ROW": n * (n - 1) // 2, "LOWER_DIAG_ROW": n + n * (n - 1) // 2, "UPPER_DIAG_ROW": n + n * (n - 1) // 2}[fmt]


def spec_cells(fmt, n):
    """TSPLIB95: which number (index into the stream) lands in which cells; None = cell stays 0"""
    cells = {}
    k = 0
    if fmt == "FULL_MATRIX":
        for i in range(n):
            for j in range(n):
                cells[(i, j)] = None if i == j else k
                k += 1
    elif fmt == "UPPER_ROW":
        for i in range(n):
            for j in range(i + 1, n):
                cells[(i, j)] = cells[(j, i)] = k
                k += 1
    elif fmt == "LOWER_DIAG_ROW":
        for i in range(n):
            for j in range(i + 1):
                if i != j:
                    cells[(i, j)] = cells[(j, i)] = k
                k += 1
    elif fmt == "UPPER_DIAG_ROW":
        for i in range(n):
            for j in range(i, n):
                if i != j:
                    cells[(i, j)] = cells[(j, i)] = k
                k += 1
    return cells


def loader_funcs():
    import moptipyapps.tsp.instance as ti
    ov = core.install_builtins(dict(check_int_range=P.s_check_int_range, check_to_int_range=c09.s_check_to_int_range, isfinite=lambda v: True))
    memo = {}
    also = ("__read_n_ints", "__line_to_nums", "_matrix_from_edge_weights")
    mfe = xform.transform(ti._matrix_from_edge_weights, ov, memo, also=also)
    return mfe, ti, ov, memo, also


def wrap_lines(eng, toks, blank_every=0):
    """wrap tokens into lines; the wrapping is decided by forking at each token boundary"""
    lines = []
    cur = [toks[0]]
    for k in range(1, len(toks)):
        if SymBool(z3.Bool(f"brk{k}")):
            lines.append(" ".join(cur))
            if blank_every and k % blank_every == 0:
                lines.append("   ")
            cur = [toks[k]]
        else:
            cur.append(toks[k])
    lines.append((" " if len(cur) % 2 else "") + " ".join(cur) + " ")
    return lines


def real_matrix(fmt, n, lines):
    import moptipyapps.tsp.instance as ti
    return [[int(v) for v in r] for r in ti._matrix_from_edge_weights(n, "EXPLICIT", fmt, iter(lines))]


def replay(w):
    kind = w["kind"]
    if kind == "format":
        n, fmt, lines = w["n"], w["fmt"], w["lines"]
        nums = [int(t) for ln in lines for t in ln.split()]
        try:
            got = real_matrix(fmt, n, lines)
        except (ValueError, IndexError) as e:
            return True, dict(raised=f"{type(e).__name__}: {e}"[:150])
        sc = spec_cells(fmt, n)
        exp = [[(0 if sc.get((i, j)) is None else nums[sc[(i, j)]]) for j in range(n)] for i in range(n)]
        return got != exp, dict(loaded=got, expected=exp)
    if kind == "roundtrip":
        import numpy as np
        import moptipyapps.tsp.instance as ti
        D = w["D"]
        inst = ti.Instance("rt", 0, np.array(D, dtype=np.int64))
        out = []
        inst.to_stream(out.append)
        back = ti._from_stream(iter(out), None)
        info = dict(text=out[:12], name=back.name, n=int(back.n_cities), symmetric=bool(back.is_symmetric), matrix=[[int(v) for v in r] for r in back])
        sym = all(D[i][j] == D[j][i] for i in range(len(D)) for j in range(len(D)))
        bad = back.name != "rt" or back.n_cities != len(D) or bool(back.is_symmetric) != sym or info["matrix"] != [list(r) for r in D]
        return bad, info
    if kind == "tour":
        import io
        from moptipyapps.tsp.known_optima import _from_stream as tour_from
        nodes = w["nodes"]
        text = "NAME : x\nTOUR_SECTION\n" + "\n".join(" ".join(map(str, g)) for g in w["groups"]) + "\n-1\nEOF\n"
        ok = sorted(nodes) == list(range(1, len(nodes) + 1))
        try:
            t = [int(v) for v in tour_from(io.StringIO(text))]
            return (not ok) or t != [v - 1 for v in nodes], dict(tour=t, valid=ok)
        except ValueError as e:
            return ok, dict(raised=str(e)[:100], valid=ok)
    raise ValueError(kind)


def job_format(fmt, n, max_paths=4000):
    mfe, ti, ov, memo, also = loader_funcs()
    cnt = count_for(fmt, n)
    sc = spec_cells(fmt, n)
    state = {}

    def h(eng):
        vals = [fresh_int(f"v{k}") for k in range(cnt)]
        eng.assume(z3.And(*[z3.And(v.e >= 0, v.e <= 10 ** 12) for v in vals]))
        toks = [AtomStr(v) for v in vals]
        lines = wrap_lines(eng, toks, blank_every=0)
        state["lines"] = lines
        try:
            res = mfe(n, "EXPLICIT", fmt, iter([ln + "\n" for ln in lines]))
        except (ValueError, IndexError) as e:
            eng.oblige(False, "loader accepts every wrapping: " + str(e)[:60], now=True)
            return "raised"
        cs = []
        for i in range(n):
            for j in range(n):
                k = sc.get((i, j))
                cs.append(lift(res[i, j]) == (0 if k is None else vals[k].e))
        eng.oblige(z3.And(*cs), f"{fmt}: the k-th number lands in the cell TSPLIB95 prescribes", now=True)
        return "loaded"
    eng = Engine(timeout_ms=60000, max_paths=max_paths)
    ok = eng.explore(h)
    common = dict(paths=eng.paths, queries=dict(sat=eng.n_sat, unsat=eng.n_unsat, unknown=eng.unknown), solver_s=round(eng.t_solver, 2), vacuity=dict(outcomes=eng.outcomes))
    if eng.violations:
        v = eng.violations[0]
        md = {d.name(): v.model[d] for d in v.model.decls()}
        nums = [str(k + 1) for k in range(cnt)]
        lines = []
        cur = [nums[0]]
        for k in range(1, cnt):
            b = md.get(f"brk{k}")
            if b is not None and z3.is_true(b):
                lines.append(" ".join(cur))
                cur = [nums[k]]
            else:
                cur.append(nums[k])
        lines.append(" ".join(cur))
        w = dict(kind="format", fmt=fmt, n=n, lines=lines, label=v.label)
        bad, info = replay(w)
        w["observed"] = info
        if bad:
            return violated("explicit_formats", f"tsp/instance.py:_matrix_from_edge_weights/{fmt}", f"{fmt} n={n} lines={lines} -> {info}", w, validated=1, **common)
        return inconclusive(f"model does not replay: {w}", **common)
    if not eng.outcomes.get("loaded"):
        return inconclusive(f"vacuous {eng.stats()}", **common)
    return held(summary=f"{fmt} n={n}: {eng.paths} line wrappings ({'all' if eng.exhausted else 'budgeted subset'}), numbers symbolic", exhaustive=eng.exhausted,
                sample=dict(fmt=fmt, n=n, numbers=cnt, example=[str(x) for x in state.get("lines", [])][:5]), **common)


def job_roundtrip(n, symmetric):
    """Instance -> to_stream -> _from_stream gives the same name, size, symmetry flag and matrix"""
    import moptipyapps.tsp.instance as ti
    ctor, Instance = c05.tsp_ctor()
    mfe, ti_, ov, memo, also = loader_funcs()
    ov2 = dict(ov)
    import numpy as np

    def _inst(name, lb, m):
        m._masq = np.ndarray
        return ctor(Instance, name, lb, m)
    ov2["Instance"] = _inst
    to_stream = xform.transform(ti.Instance.to_stream, core.install_builtins())
    from_stream = xform.transform(ti._from_stream, ov2, {}, also=also)

    def h(eng):
        inst = c05.make_tsp(eng, n, symmetric=symmetric)
        inst.name = "rt"
        eng.pending = []
        out = []
        to_stream(inst, out.append)
        try:
            back = from_stream(iter([ln + "\n" for ln in out]), None)
        except ValueError as e:
            eng.oblige(False, "reading back what to_stream wrote raises: " + str(e)[:80], now=True)
            return "raised"
        eng.pending = []
        G = inst.given
        cs = [z3.BoolVal(back.name == "rt"), lift(back.n_cities) == n, core.bexpr(back.is_symmetric) == core.bexpr(inst.is_symmetric)]
        for i in range(n):
            for j in range(n):
                cs.append(lift(back[i, j]) == lift(G[i, j]))
        eng.oblige(z3.And(*cs), "round trip returns name, size, symmetry flag and matrix", now=True)
        return "roundtrip"
    eng = Engine(timeout_ms=60000)
    ok = eng.explore(h)
    common = dict(paths=eng.paths, queries=dict(sat=eng.n_sat, unsat=eng.n_unsat, unknown=eng.unknown), solver_s=round(eng.t_solver, 2), vacuity=dict(outcomes=eng.outcomes))
    if eng.violations:
        v = eng.violations[0]
        md = {d.name(): v.model[d].as_long() for d in v.model.decls() if z3.is_int_value(v.model[d])}
        D = [[md.get(f"d_{i * n + j}", 0) for j in range(n)] for i in range(n)]
        if symmetric:
            for i in range(n):
                for j in range(i):
                    D[j][i] = D[i][j]
        w = dict(kind="roundtrip", D=D, label=v.label)
        try:
            bad, info = replay(w)
        except ValueError as e:
            bad, info = True, dict(raised=str(e)[:150])
        w["observed"] = info
        if bad:
            return violated("stream_roundtrip", "tsp/instance.py:to_stream/_from_stream", f"round trip of {D} -> {info}", w, validated=1, **common)
        return inconclusive(f"model does not replay ({v.label}): {w}", **common)
    if not ok or not eng.outcomes.get("roundtrip"):
        return inconclusive(f"not conclusive {eng.stats()}", **common)
    return held(summary=f"to_stream/_from_stream n={n} symmetric={symmetric}: {eng.paths} paths", sample=dict(n=n, symmetric=symmetric, outcomes=eng.outcomes), **common)


def job_tour(length, maxnode):
    """tour parser: arbitrary node sequence (symbolic node numbers, concretised by forking): returns nodes-1 iff it is a permutation of 1..max"""
    import io
    import moptipyapps.tsp.known_optima as ko

    def conc_check(val, what="value", lo=0, hi=10 ** 9):
        v = atom_of(val) if isinstance(val, str) else val
        if isinstance(v, SymInt):
            v = core.ENG.concretise(v.e)
        if not (lo <= v <= hi):
            raise ValueError(what)
        return v
    ov = core.install_builtins(dict(check_to_int_range=conc_check))
    f = xform.transform(ko._from_stream, ov)
    state = {}

    def h(eng):
        vals = [fresh_int(f"n{k}") for k in range(length)]
        eng.assume(z3.And(*[z3.And(v.e >= 1, v.e <= maxnode) for v in vals]))
        toks = [AtomStr(v) for v in vals]
        lines = ["NAME : x", "TOUR_SECTION"] + wrap_lines(eng, toks) + ["-1", "EOF"]
        try:
            res = f(iter([ln + "\n" for ln in lines]))
            got = [int(v) for v in res]
            ok = True
        except ValueError:
            ok = False
        # every node number is concrete on this path now
        m = eng.s.model() if eng._check() == z3.sat else None
        nodes = [m.eval(v.e, model_completion=True).as_long() for v in vals]
        valid = sorted(nodes) == list(range(1, length + 1))
        state["last"] = nodes
        if ok != valid or (ok and got != [v - 1 for v in nodes]):
            eng.oblige(False, f"tour parser: nodes {nodes} valid={valid} accepted={ok}", now=True)
        return "accepted" if ok else "rejected"
    eng = Engine(timeout_ms=60000, max_paths=60000)
    ok = eng.explore(h)
    common = dict(paths=eng.paths, queries=dict(sat=eng.n_sat, unsat=eng.n_unsat, unknown=eng.unknown), solver_s=round(eng.t_solver, 2), vacuity=dict(outcomes=eng.outcomes))
    if eng.violations:
        v = eng.violations[0]
        md = {d.name(): v.model[d].as_long() for d in v.model.decls() if z3.is_int_value(v.model[d])}
        nodes = [md.get(f"n{k}", 1) for k in range(length)]
        w = dict(kind="tour", nodes=nodes, groups=[nodes], label=v.label)
        bad, info = replay(w)
        w["observed"] = info
        if bad:
            return violated("tour_parser", "tsp/known_optima.py:_from_stream", f"tour file with nodes {nodes} -> {info}", w, validated=1, **common)
        return inconclusive(f"does not replay: {w}", **common)
    if not eng.outcomes.get("accepted") or not eng.outcomes.get("rejected"):
        return inconclusive(f"vacuous {eng.stats()}", **common)
    return held(summary=f"tour parser: sequences of {length} nodes in 1..{maxnode}: {eng.paths} paths {eng.outcomes}", sample=dict(length=length, outcomes=eng.outcomes), **common)


def job_selftest(seed):
    """concrete cross-check through the real loaders: formats, wrappings, round trips, tours"""
    rnd = random.Random(seed)
    cnt = 0
    for _ in range(40):
        n = rnd.randint(2, 6)
        fmt = rnd.choice(FORMATS)
        nums = [rnd.randint(0, 99) for _ in range(count_for(fmt, n))]
        lines, k = [], 0
        while k < len(nums):
            step = rnd.randint(1, 5)
            lines.append(("  " if rnd.random() < 0.3 else "") + "   ".join(map(str, nums[k:k + step])))
            k += step
        w = dict(kind="format", fmt=fmt, n=n, lines=lines)
        bad, info = replay(w)
        cnt += 1
        if bad:
            w["observed"] = info
            return violated("explicit_formats", f"tsp/instance.py:_matrix_from_edge_weights/{fmt}", f"{w}", w, validated=cnt, paths=cnt)
        D = [[0 if i == j else rnd.randint(1, 50) for j in range(n)] for i in range(n)]
        if rnd.random() < 0.5:
            for i in range(n):
                for j in range(i):
                    D[i][j] = D[j][i]
        w = dict(kind="roundtrip", D=D)
        bad, info = replay(w)
        cnt += 1
        if bad:
            w["observed"] = info
            return violated("stream_roundtrip", "tsp/instance.py:to_stream/_from_stream", f"{w}", w, validated=cnt, paths=cnt)
        nodes = list(range(1, n + 1))
        rnd.shuffle(nodes)
        if rnd.random() < 0.4:
            nodes[rnd.randrange(n)] = rnd.randint(1, n + 1)
        cut = rnd.randint(1, n)
        w = dict(kind="tour", nodes=nodes, groups=[nodes[:cut], nodes[cut:]] if cut < n else [nodes])
        bad, info = replay(w)
        cnt += 1
        if bad:
            w["observed"] = info
            return violated("tour_parser", "tsp/known_optima.py:_from_stream", f"{w}", w, validated=cnt, paths=cnt)
    return held(validated=cnt, paths=cnt, queries={}, summary=f"self-test: {cnt} concrete files through the real loaders / writer / tour parser agree with the format definitions")


def jobs(tier):
    import os
    seed = int(os.environ.get("VERIF_SEED", "0") or 0)
    js = [Job("selftest", job_selftest, dict(seed=seed), "selftest", 600)]
    for fmt in FORMATS:
        for n in (2, 3, 4) + ((5,) if tier == "thorough" else ()):
            js.append(Job(f"format/{fmt}/n{n}", job_format, dict(fmt=fmt, n=n, max_paths=1200 if tier == "quick" else 20000), "explicit_formats", 900 if tier == "quick" else 3000))
    for n in (2, 3) + ((4,) if tier == "thorough" else ()):
        for sym in (None, True):
            js.append(Job(f"roundtrip/n{n}/{'sym' if sym else 'any'}", job_roundtrip, dict(n=n, symmetric=sym), "stream_roundtrip", 900))
    js.append(Job("tour/len3", job_tour, dict(length=3, maxnode=4), "tour_parser", 600))
    js.append(Job("tour/len4", job_tour, dict(length=4, maxnode=5), "tour_parser", 900))
    return js


def meta(tier):
    return dict(
        bounds=dict(formats="the four explicit formats, n <= 4 (thorough 5), numbers symbolic 0..10^12, every wrapping of the number stream into lines (budget 1200 paths quick / 20000 thorough; exhaustive where the evidence says so)",
                    roundtrip="Instance (real constructor, symbolic matrix n <= 3 (thorough 4), symmetric and asymmetric) -> to_stream -> _from_stream",
                    tour="node sequences of length 3-4 with node numbers 1..5, every wrapping"),
        outside=["EUC_2D / CEIL_2D / ATT / GEO coordinate distances (float sqrt/cos/acos)", "'every shipped tour has the documented optimum length' (a fact about shipped data, not about all inputs)",
                 "digit-level number formatting/parsing (numbers travel as opaque atoms: Python's str(int)/int(str) are assumed inverse)"],
        assumptions=["numbers are opaque atom tokens", "instances accepted by the real tsp constructor"],
        stubs=["check_to_int_range/check_int_range re-implemented", "Instance(...) inside _from_stream -> the symbolic run of the real constructor", "np.array/zeros/fill_diagonal/reshape shims"])
