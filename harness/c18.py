"""C18 - TSPLIB and tour files load to the matrices the format prescribes (partial: see meta.outside)."""
from __future__ import annotations

import itertools
import random
import time

import z3

from symx import core, xform, util, backend
from symx.core import Engine, SymArray, SymInt, SymBool, AtomStr, atom_of, fresh_array, fresh_int, lift, mk, Abort, INT64
from symx.runner import Job, held, violated, inconclusive
from . import pack_common as P
from . import c05, c09

PROP = "C18"
FORMATS = ["FULL_MATRIX", "UPPER_ROW", "LOWER_DIAG_ROW", "UPPER_DIAG_ROW"]


def count_for(fmt, n):
    return {"FULL_MATRIX": n * n, "UPPER_ROW": n * (n - 1) // 2, "LOWER_DIAG_ROW": n + n * (n - 1) // 2, "UPPER_DIAG_ROW": n + n * (n - 1) // 2}[fmt]


def spec_cells(fmt, n):
    """TSPLIB95: which number (index into the stream) lands in which cells; None = cell stays 0"""
    cells = {}
    k = 0
    if fmt == "FULL_MATRIX":
        for i in range(n):
            for j in range(n):
                cells[(i, j)] = None if i == j else k
                k += 1
    elif fmt == "UPPER_ROW":
        for i in range(n):
            for j in range(i + 1, n):
                cells[(i, j)] = cells[(j, i)] = k
                k += 1
    elif fmt == "LOWER_DIAG_ROW":
        for i in range(n):
            for j in range(i + 1):
                if i != j:
                    cells[(i, j)] = cells[(j, i)] = k
                k += 1
    elif fmt == "UPPER_DIAG_ROW":
        for i in range(n):
            for j in range(i, n):
                if i != j:
                    cells[(i, j)] = cells[(j, i)] = k
                k += 1
    return cells


def loader_funcs():
    import moptipyapps.tsp.instance as ti
    ov = core.install_builtins(dict(check_int_range=P.s_check_int_range, check_to_int_range=c09.s_check_to_int_range, isfinite=lambda v: True))
    memo = {}
    also = ("__read_n_ints", "__line_to_nums", "_matrix_from_edge_weights")
    mfe = xform.transform(ti._matrix_from_edge_weights, ov, memo, also=also)
    return mfe, ti, ov, memo, also


def wrap_lines(eng, toks, blank_every=0):
    """wrap tokens into lines; the wrapping is decided by forking at each token boundary"""
    lines = []
    cur = [toks[0]]
    for k in range(1, len(toks)):
        if SymBool(z3.Bool(f"brk{k}")):
            lines.append(" ".join(cur))
            if blank_every and k % blank_every == 0:
                lines.append("   ")
            cur = [toks[k]]
        else:
            cur.append(toks[k])
    lines.append((" " if len(cur) % 2 else "") + " ".join(cur) + " ")
    return lines


def real_matrix(fmt, n, lines):
    import moptipyapps.tsp.instance as ti
    return [[int(v) for v in r] for r in ti._matrix_from_edge_weights(n, "EXPLICIT", fmt, iter(lines))]


def replay(w):
    kind = w["kind"]
    if kind == "format":
        n, fmt, lines = w["n"], w["fmt"], w["lines"]
        nums = [int(t) for ln in lines for t in ln.split()]
        try:
            got = real_matrix(fmt, n, lines)
        except (ValueError, IndexError) as e:
            return True, dict(raised=f"{type(e).__name__}: {e}"[:150])
        sc = spec_cells(fmt, n)
        exp = [[(0 if sc.get((i, j)) is None else nums[sc[(i, j)]]) for j in range(n)] for i in range(n)]
        return got != exp, dict(loaded=got, expected=exp)
    if kind == "roundtrip":
        import numpy as np
        import moptipyapps.tsp.instance as ti
        D = w["D"]
        inst = ti.Instance("rt", 0, np.array(D, dtype=np.int64))
        out = []
        inst.to_stream(out.append)
        back = ti._from_stream(iter(out), None)
        info = dict(text=out[:12], name=back.name, n=int(back.n_cities), symmetric=bool(back.is_symmetric), matrix=[[int(v) for v in r] for r in back])
        sym = all(D[i][j] == D[j][i] for i in range(len(D)) for j in range(len(D)))
        bad = back.name != "rt" or back.n_cities != len(D) or bool(back.is_symmetric) != sym or info["matrix"] != [list(r) for r in D]
        return bad, info
    if kind == "coords":
        ewt, n, q, pts = w["ewt"], w["n"], w["q"], w["points"]
        from fractions import Fraction
        if ewt != "GEO":
            lines = [f"{i + 1} {coord_text(p[0], q)} {coord_text(p[1], q)}" for i, p in enumerate(pts)] + ["EOF"]
        if ewt == "GEO":
            lines = [f"{i + 1} {geo_text(p[0], q)} {geo_text(p[1], q)}" for i, p in enumerate(pts)] + ["EOF"]
            exp = [[0 if i == j else geo_float(pts[i], pts[j], q) for j in range(n)] for i in range(n)]
        else:
            exp = [[0 if i == j else exact_dist(ewt, [Fraction(c, q) for c in pts[i]], [Fraction(c, q) for c in pts[j]]) for j in range(n)] for i in range(n)]
        try:
            got = real_coord_matrix(ewt, lines, n)
        except (ValueError, TypeError, IndexError) as e:
            return True, dict(raised=f"{type(e).__name__}: {e}"[:150], expected=exp)
        return got != exp, dict(loaded=got, expected=exp, lines=lines)
    if kind == "tour":
        import io
        from moptipyapps.tsp.known_optima import _from_stream as tour_from
        nodes = w["nodes"]
        text = "NAME : x\nTOUR_SECTION\n" + "\n".join(" ".join(map(str, g)) for g in w["groups"]) + "\n-1\nEOF\n"
        ok = sorted(nodes) == list(range(1, len(nodes) + 1))
        try:
            t = [int(v) for v in tour_from(io.StringIO(text))]
            return (not ok) or t != [v - 1 for v in nodes], dict(tour=t, valid=ok)
        except ValueError as e:
            return ok, dict(raised=str(e)[:100], valid=ok)
    raise ValueError(kind)


def job_format(fmt, n, max_paths=4000):
    mfe, ti, ov, memo, also = loader_funcs()
    cnt = count_for(fmt, n)
    sc = spec_cells(fmt, n)
    state = {}

    def h(eng):
        vals = [fresh_int(f"v{k}") for k in range(cnt)]
        eng.assume(z3.And(*[z3.And(v.e >= 0, v.e <= 10 ** 12) for v in vals]))
        toks = [AtomStr(v) for v in vals]
        lines = wrap_lines(eng, toks, blank_every=0)
        state["lines"] = lines
        try:
            res = mfe(n, "EXPLICIT", fmt, iter([ln + "\n" for ln in lines]))
        except (ValueError, IndexError) as e:
            eng.oblige(False, "loader accepts every wrapping: " + str(e)[:60], now=True)
            return "raised"
        cs = []
        for i in range(n):
            for j in range(n):
                k = sc.get((i, j))
                cs.append(lift(res[i, j]) == (0 if k is None else vals[k].e))
        eng.oblige(z3.And(*cs), f"{fmt}: the k-th number lands in the cell TSPLIB95 prescribes", now=True)
        return "loaded"
    eng = Engine(timeout_ms=60000, max_paths=max_paths)
    ok = eng.explore(h)
    common = dict(paths=eng.paths, queries=dict(sat=eng.n_sat, unsat=eng.n_unsat, unknown=eng.unknown), solver_s=round(eng.t_solver, 2), vacuity=dict(outcomes=eng.outcomes))
    if eng.violations:
        v = eng.violations[0]
        md = {d.name(): v.model[d] for d in v.model.decls()}
        nums = [str(k + 1) for k in range(cnt)]
        lines = []
        cur = [nums[0]]
        for k in range(1, cnt):
            b = md.get(f"brk{k}")
            if b is not None and z3.is_true(b):
                lines.append(" ".join(cur))
                cur = [nums[k]]
            else:
                cur.append(nums[k])
        lines.append(" ".join(cur))
        w = dict(kind="format", fmt=fmt, n=n, lines=lines, label=v.label)
        bad, info = replay(w)
        w["observed"] = info
        if bad:
            return violated("explicit_formats", f"tsp/instance.py:_matrix_from_edge_weights/{fmt}", f"{fmt} n={n} lines={lines} -> {info}", w, validated=1, **common)
        return inconclusive(f"model does not replay: {w}", **common)
    if not eng.outcomes.get("loaded"):
        return inconclusive(f"vacuous {eng.stats()}", **common)
    return held(summary=f"{fmt} n={n}: {eng.paths} line wrappings ({'all' if eng.exhausted else 'budgeted subset'}), numbers symbolic", exhaustive=eng.exhausted,
                sample=dict(fmt=fmt, n=n, numbers=cnt, example=[str(x) for x in state.get("lines", [])][:5]), **common)


def job_roundtrip(n, symmetric):
    """Instance -> to_stream -> _from_stream gives the same name, size, symmetry flag and matrix"""
    import moptipyapps.tsp.instance as ti
    ctor, Instance = c05.tsp_ctor()
    mfe, ti_, ov, memo, also = loader_funcs()
    ov2 = dict(ov)
    import numpy as np

    def _inst(name, lb, m):
        m._masq = np.ndarray
        return ctor(Instance, name, lb, m)
    ov2["Instance"] = _inst
    to_stream = xform.transform(ti.Instance.to_stream, core.install_builtins())
    from_stream = xform.transform(ti._from_stream, ov2, {}, also=also)

    def h(eng):
        inst = c05.make_tsp(eng, n, symmetric=symmetric)
        inst.name = "rt"
        eng.pending = []
        out = []
        to_stream(inst, out.append)
        try:
            back = from_stream(iter([ln + "\n" for ln in out]), None)
        except ValueError as e:
            eng.oblige(False, "reading back what to_stream wrote raises: " + str(e)[:80], now=True)
            return "raised"
        eng.pending = []
        G = inst.given
        cs = [z3.BoolVal(back.name == "rt"), lift(back.n_cities) == n, core.bexpr(back.is_symmetric) == core.bexpr(inst.is_symmetric)]
        for i in range(n):
            for j in range(n):
                cs.append(lift(back[i, j]) == lift(G[i, j]))
        eng.oblige(z3.And(*cs), "round trip returns name, size, symmetry flag and matrix", now=True)
        return "roundtrip"
    eng = Engine(timeout_ms=60000)
    ok = eng.explore(h)
    common = dict(paths=eng.paths, queries=dict(sat=eng.n_sat, unsat=eng.n_unsat, unknown=eng.unknown), solver_s=round(eng.t_solver, 2), vacuity=dict(outcomes=eng.outcomes))
    if eng.violations:
        v = eng.violations[0]
        md = {d.name(): v.model[d].as_long() for d in v.model.decls() if z3.is_int_value(v.model[d])}
        D = [[md.get(f"d_{i * n + j}", 0) for j in range(n)] for i in range(n)]
        if symmetric:
            for i in range(n):
                for j in range(i):
                    D[j][i] = D[i][j]
        w = dict(kind="roundtrip", D=D, label=v.label)
        try:
            bad, info = replay(w)
        except ValueError as e:
            bad, info = True, dict(raised=str(e)[:150])
        w["observed"] = info
        if bad:
            return violated("stream_roundtrip", "tsp/instance.py:to_stream/_from_stream", f"round trip of {D} -> {info}", w, validated=1, **common)
        return inconclusive(f"model does not replay ({v.label}): {w}", **common)
    if not ok or not eng.outcomes.get("roundtrip"):
        return inconclusive(f"not conclusive {eng.stats()}", **common)
    return held(summary=f"to_stream/_from_stream n={n} symmetric={symmetric}: {eng.paths} paths", sample=dict(n=n, symmetric=symmetric, outcomes=eng.outcomes), **common)


def job_tour(length, maxnode):
    """tour parser: arbitrary node sequence (symbolic node numbers, concretised by forking): returns nodes-1 iff it is a permutation of 1..max"""
    import io
    import moptipyapps.tsp.known_optima as ko

    def conc_check(val, what="value", lo=0, hi=10 ** 9):
        v = atom_of(val) if isinstance(val, str) else val
        if isinstance(v, SymInt):
            v = core.ENG.concretise(v.e)
        if not (lo <= v <= hi):
            raise ValueError(what)
        return v
    ov = core.install_builtins(dict(check_to_int_range=conc_check))
    f = xform.transform(ko._from_stream, ov)
    state = {}

    def h(eng):
        vals = [fresh_int(f"n{k}") for k in range(length)]
        eng.assume(z3.And(*[z3.And(v.e >= 1, v.e <= maxnode) for v in vals]))
        toks = [AtomStr(v) for v in vals]
        lines = ["NAME : x", "TOUR_SECTION"] + wrap_lines(eng, toks) + ["-1", "EOF"]
        try:
            res = f(iter([ln + "\n" for ln in lines]))
            got = [int(v) for v in res]
            ok = True
        except ValueError:
            ok = False
        # every node number is concrete on this path now
        m = eng.s.model() if eng._check() == z3.sat else None
        nodes = [m.eval(v.e, model_completion=True).as_long() for v in vals]
        valid = sorted(nodes) == list(range(1, length + 1))
        state["last"] = nodes
        if ok != valid or (ok and got != [v - 1 for v in nodes]):
            eng.oblige(False, f"tour parser: nodes {nodes} valid={valid} accepted={ok}", now=True)
        return "accepted" if ok else "rejected"
    eng = Engine(timeout_ms=60000, max_paths=60000)
    ok = eng.explore(h)
    common = dict(paths=eng.paths, queries=dict(sat=eng.n_sat, unsat=eng.n_unsat, unknown=eng.unknown), solver_s=round(eng.t_solver, 2), vacuity=dict(outcomes=eng.outcomes))
    if eng.violations:
        v = eng.violations[0]
        md = {d.name(): v.model[d].as_long() for d in v.model.decls() if z3.is_int_value(v.model[d])}
        nodes = [md.get(f"n{k}", 1) for k in range(length)]
        w = dict(kind="tour", nodes=nodes, groups=[nodes], label=v.label)
        bad, info = replay(w)
        w["observed"] = info
        if bad:
            return violated("tour_parser", "tsp/known_optima.py:_from_stream", f"tour file with nodes {nodes} -> {info}", w, validated=1, **common)
        return inconclusive(f"does not replay: {w}", **common)
    if not eng.outcomes.get("accepted") or not eng.outcomes.get("rejected"):
        return inconclusive(f"vacuous {eng.stats()}", **common)
    return held(summary=f"tour parser: sequences of {length} nodes in 1..{maxnode}: {eng.paths} paths {eng.outcomes}", sample=dict(length=length, outcomes=eng.outcomes), **common)


# --------------------------------------------------------------------------- coordinate-based edge weights
COORD_TYPES = ["EUC_2D", "CEIL_2D", "ATT"]


def coord_funcs():
    import moptipyapps.tsp.instance as ti
    from symx import sqrtalg
    ov = core.install_builtins(dict(check_int_range=P.s_check_int_range, check_to_int_range=c09.s_check_to_int_range, isfinite=lambda v: True,
                                    sqrt=sqrtalg.s_sqrt))
    memo = {}
    also = ("__matrix_from_points", "__line_to_nums", "__dist_2deuc", "__dist_att", "__dist_2dceil", "__nint", "_matrix_from_node_coord_section")
    f = xform.transform(ti._matrix_from_node_coord_section, ov, memo, also=also)
    return f, ti


def coord_spec(ewt, xn, xd, d):
    """TSPLIB95 distance d (an integer term) as a function of the root argument x = xn/xd, by squares only: EUC_2D (x = squared
    Euclidean distance) nearest integer, half up; CEIL_2D (same x) smallest integer >= sqrt(x); ATT (x = squared distance / 10):
    nint, plus one if that is below the root - i.e. again the smallest integer >= sqrt(x)"""
    if ewt == "EUC_2D":     # d - 1/2 <= sqrt(x) < d + 1/2
        return z3.And(d >= 0, z3.Or(d == 0, (2 * d - 1) * (2 * d - 1) * xd <= 4 * xn), 4 * xn < (2 * d + 1) * (2 * d + 1) * xd)
    return z3.And(d >= 0, z3.Or(z3.And(d == 0, xn == 0), z3.And(d >= 1, (d - 1) * (d - 1) * xd < xn, xn <= d * d * xd)))


def exact_dist(ewt, a, b):
    """the same definitions on concrete fractions (integer arithmetic only)"""
    from fractions import Fraction
    from math import isqrt
    s = (Fraction(a[0]) - Fraction(b[0])) ** 2 + (Fraction(a[1]) - Fraction(b[1])) ** 2
    if ewt == "ATT":
        s = s / 10
    if ewt == "EUC_2D":     # floor(sqrt(s) + 1/2) = floor(sqrt(4 s) / 2 + 1/2) = (isqrt-based) largest d with (2d-1)^2 <= 4s
        d = isqrt((4 * s).numerator // (4 * s).denominator) // 2 + 2
        while d > 0 and not ((2 * d - 1) ** 2 <= 4 * s):
            d -= 1
        return d
    d = isqrt(s.numerator // s.denominator)
    while Fraction(d * d) < s:
        d += 1
    return d


def coord_text(k, q):
    """exact decimal text of k/q for q in (1, 2, 4)"""
    if q == 1:
        return str(k)
    sign = "-" if k < 0 else ""
    k = abs(k)
    digits = {2: 1, 4: 2}[q]
    frac = (k % q) * (10 ** digits) // q
    return f"{sign}{k // q}.{frac:0{digits}d}"


def geo_text(k, q):
    if q == 1:
        return str(k)
    digits = len(str(q)) - 1
    sign = "-" if k < 0 else ""
    k = abs(k)
    return f"{sign}{k // q}.{k % q:0{digits}d}"


def geo_float(a, b, q):
    """TSPLIB95 GEO distance in floating point (truncating degree conversion)"""
    import math

    def rad(k):
        x = float(geo_text(k, q))
        deg = int(x)
        return 3.141592 * (deg + 5.0 * (x - deg) / 3.0) / 180.0
    lat_i, lon_i, lat_j, lon_j = rad(a[0]), rad(a[1]), rad(b[0]), rad(b[1])
    q1, q2, q3 = math.cos(lon_i - lon_j), math.cos(lat_i - lat_j), math.cos(lat_i + lat_j)
    return int(6378.388 * math.acos(0.5 * ((1.0 + q1) * q2 - (1.0 - q1) * q3)) + 1.0)


def real_coord_matrix(ewt, lines, n):
    import moptipyapps.tsp.instance as ti
    return [[int(v) for v in r] for r in ti._matrix_from_node_coord_section(n, ewt, None, iter(lines))]


def job_coords(ewt, n, q, bound, timeout_s=600):
    """`_matrix_from_node_coord_section` on n points with symbolic coordinates k/q (q = 1: integer text; q = 2, 4: decimal
    text), |k| <= bound: every cell equals the TSPLIB95 distance of its two points, the matrix is symmetric with a zero diagonal.
    Per cell the proof is split: (A) the polynomial the code takes the root of IS the squared distance of the two points of that
    cell (identity over the coordinates), (B) for EVERY non-negative argument the code's root/rounding logic yields the TSPLIB95
    value (argument = one fresh integer)."""
    f, ti = coord_funcs()
    from symx import sqrtalg
    tmax = 4 * bound + 4             # cap on every truncated root (a distance is at most 3*bound+1); checked below not to cut anything off
    sqrtalg.TRUNC_MAX[0] = tmax
    state = {}

    def h(eng):
        del sqrtalg.ARGS[:]
        ks = [[fresh_int(f"k{i}_{c}") for c in range(2)] for i in range(n)]
        eng.assume(z3.And(*[z3.And(v.e >= -bound, v.e <= bound) for r in ks for v in r]))
        lines = []
        for i in range(n):
            if q == 1:
                toks = [AtomStr(v) for v in ks[i]]
            else:
                toks = [AtomStr(core.SymReal(z3.ToReal(v.e) / q), suffix=".") for v in ks[i]]
            lines.append(f"{i + 1} " + " ".join(toks) + "\n")
        lines.append("EOF\n")
        try:
            m = f(n, ewt, None, iter(lines))
        except (ValueError, TypeError) as e:
            eng.oblige(False, "coordinate section is accepted: " + str(e)[:80], now=True)
            return "raised"
        state["box"] = util.Box(ks=ks, m=m, args=list(sqrtalg.ARGS))
        return "loaded"
    eng = Engine(timeout_ms=60000, max_paths=64)
    per = []

    def wrapped(e):
        r = h(e)
        if r == "loaded":
            per.append((list(e.s.assertions()), list(e.deferred), state["box"]))
        return r
    eng.explore(wrapped)
    common = dict(paths=eng.paths, vacuity=dict(outcomes=dict(eng.outcomes)))
    if eng.violations:
        v = eng.violations[0]
        md = {d.name(): v.model[d] for d in v.model.decls()}
        pts = [[int(str(md.get(f"k{i}_{c}", 0))) for c in range(2)] for i in range(n)]
        return _coord_verdict(ewt, n, q, pts, v.label, common)
    if not per or eng.work or not eng.exhausted or any(k not in ("infeasible",) for k in eng.aborts):
        return inconclusive(f"exploration incomplete {eng.stats()}", **common)
    results = []

    def done(extra=None):
        qs, st = util.qstats(results)
        common.update(queries=qs, solver_s=st)
        if extra:
            common.update(extra)

    def names(e):
        return {x.decl().name() for x in _int_consts(e)}
    for asr, deferred, box in per:
        kcons = [a for a in asr if all(nm.startswith("k") for nm in names(a))]        # the coordinate ranges (+ decisions on coordinates only)
        argmap = {A.decl().name(): (A, xn, xd) for A, xn, xd in box.args}
        for i in range(n):
            for j in range(i + 1):
                cells = [lift(box.m[i, j]), lift(box.m[j, i])]
                if i == j:
                    r = backend.solve(kcons, cells[0] != 0, timeout_s=120, label="diagonal")
                    results.append(r)
                    if r.status != "unsat":
                        done()
                        if r.status == "unknown":
                            return inconclusive("diagonal: solver unknown", **common)
                        pts = [[int(r.model.get(f"k{a}_{c}", 0)) for c in range(2)] for a in range(n)]
                        return _coord_verdict(ewt, n, q, pts, "diagonal cell not zero", common)
                    continue
                dx = box.ks[i][0].e - box.ks[j][0].e
                dy = box.ks[i][1].e - box.ks[j][1].e
                sn, sd = dx * dx + dy * dy, q * q * (10 if ewt == "ATT" else 1)      # the intended root argument sn/sd
                tvars = set().union(*[names(c) for c in cells])
                roots = {nm for nm in tvars if nm.startswith("isqrt")}
                if any(not nm.startswith(("isqrt", "sqarg")) for nm in tvars):
                    return inconclusive(f"cell ({i},{j}) depends on {sorted(tvars)[:4]}: not of the form the decomposition handles", **common)
                rel = [c for c in deferred + asr if names(c) & roots]
                avars = sorted({nm for c in rel for nm in names(c) if nm.startswith("sqarg")} | {nm for nm in tvars if nm.startswith("sqarg")})
                if len(avars) != 1 or any(not (nm.startswith("isqrt") or nm.startswith("sqarg")) for c in rel for nm in names(c)):
                    return inconclusive(f"cell ({i},{j}): root constraints over {avars} do not have the expected shape", **common)
                A, xn, xd = argmap[avars[0]]
                # (A) the argument of the root is the squared distance of points i and j:  xn / xd == sn / sd
                ra = backend.solve(kcons, xn * sd != sn * xd, timeout_s=timeout_s, label=f"identity {i},{j}")
                results.append(ra)
                if ra.status != "unsat":
                    done()
                    if ra.status == "unknown":
                        return inconclusive(f"identity ({i},{j}): solver unknown {ra.detail}", **common)
                    pts = [[int(ra.model.get(f"k{a}_{c}", 0)) for c in range(2)] for a in range(n)]
                    return _coord_verdict(ewt, n, q, pts, f"the root is not taken of the squared distance of points {i + 1},{j + 1}", common)
                # (B) for every argument A/xd the code's value is the TSPLIB95 one
                amax = 8 * bound * bound * xd
                d = z3.Int("spec_d")
                rvars = [z3.Int(nm) for nm in sorted({nm for c in rel for nm in names(c) if nm.startswith("isqrt")})]
                cons = rel + [A >= 0, A <= amax, coord_spec(ewt, A, xd, d), d <= tmax] + [z3.And(x >= 0, x <= tmax) for x in rvars]
                goal = z3.Not(z3.And(*[c == d for c in cells]))
                blocked = []
                while True:
                    rb = backend.solve(cons + blocked, goal, timeout_s=timeout_s, label=f"root logic {i},{j}")
                    results.append(rb)
                    if rb.status == "unsat":
                        break
                    done()
                    if rb.status == "unknown":
                        return inconclusive(f"root logic ({i},{j}): solver unknown {rb.detail}", **common)
                    av = int(rb.model.get(avars[0], 0))
                    pts = _points_for(av, xd, sd, bound, n, i, j)
                    if pts is not None:
                        return _coord_verdict(ewt, n, q, pts, f"rounding logic wrong for squared distance {av}/{xd}", common)
                    blocked.append(A != av)          # not a sum of two squares of admissible coordinate differences
                    if len(blocked) > 200:
                        return inconclusive("root logic: 200 counterexample arguments, none realisable by coordinates", **common)
                tw = backend.solve(cons, z3.BoolVal(True), timeout_s=120, label="twin")
                wide = [z3.substitute(c, *[(x <= tmax, x <= 2 * tmax) for x in rvars]) for c in cons]
                cap = backend.solve(wide, z3.Or(*[x > tmax for x in rvars]) if rvars else z3.BoolVal(False), timeout_s=300, label="cap")
                results += [tw, cap]
                if tw.status != "sat" or cap.status != "unsat":
                    done()
                    return inconclusive(f"vacuity twin {tw.status} / cap on truncated roots implied: {cap.status}", **common)
    done(dict(backend=repr(results[-3]) if len(results) >= 3 else ""))
    return held(summary=f"{ewt} n={n} coordinates k/{q}, |k|<={bound}: every cell is the TSPLIB95 distance of its points ({len(results)} queries)",
                sample=dict(query="per cell: (A) root argument == squared distance of the cell's points; (B) exists argument for which the value differs from the TSPLIB95 definition",
                            ewt=ewt, n=n, q=q, bound=bound, answer="unsat"), **common)


def _points_for(av, xd, sd, bound, n, i, j):
    """coordinate numerators of n points such that the intended root argument (dx^2 + dy^2) / sd of points i and j equals av/xd, or None"""
    from math import isqrt
    num = av * sd
    if num % xd:
        return None
    t = num // xd
    for dx in range(0, min(isqrt(t), 2 * bound) + 1):
        r2 = t - dx * dx
        dy = isqrt(r2)
        if dy * dy == r2 and dy <= 2 * bound:
            pts = [[(3 * a) % (bound + 1), (5 * a) % (bound + 1)] for a in range(n)]
            pts[i] = [-(dx // 2), -(dy // 2)]
            pts[j] = [dx - dx // 2, dy - dy // 2]
            return pts
    return None


# GEO: cos / acos are uninterpreted (shared by code and specification); what is decided is that the code evaluates the TSPLIB95
# expression on the right coordinates with the truncating degree conversion
_COS = z3.Function("cos", z3.RealSort(), z3.RealSort())
_ACOS = z3.Function("acos", z3.RealSort(), z3.RealSort())


def _s_cos(v):
    if not core.is_sym(v):
        import math
        return math.cos(v)
    r = core.SymReal(_COS(core.s_float(v).e))
    core.ENG.assume_fast(z3.And(r.e >= -1, r.e <= 1))
    return r


def _s_acos(v):
    if not core.is_sym(v):
        import math
        return math.acos(v)
    r = core.SymReal(_ACOS(core.s_float(v).e))
    core.ENG.assume_fast(z3.And(r.e >= 0, r.e <= z3.RealVal("3.1416")))
    return r


def geo_spec(pi, pj, q, d, extra):
    """TSPLIB95 GEO distance of two points given as coordinate numerators over q (truncating degree conversion, as in the
    reference implementations); appends the defining constraints of the truncations to `extra`, returns the constraint on d"""
    def rad(k, tag):
        x = z3.ToReal(k) / q
        deg = z3.Int(f"deg_{tag}")
        extra.append(z3.If(x >= 0, z3.And(z3.ToReal(deg) <= x, x < z3.ToReal(deg) + 1), z3.And(z3.ToReal(deg) >= x, x > z3.ToReal(deg) - 1)))
        mn = x - z3.ToReal(deg)
        return lift(3.141592) * (z3.ToReal(deg) + 5 * mn / 3) / 180          # the double nearest to 3.141592, as in any floating-point implementation
    lat_i, lon_i = rad(pi[0], f"{id(pi)}a"), rad(pi[1], f"{id(pi)}b")
    lat_j, lon_j = rad(pj[0], f"{id(pj)}a"), rad(pj[1], f"{id(pj)}b")
    q1, q2, q3 = _COS(lon_i - lon_j), _COS(lat_i - lat_j), _COS(lat_i + lat_j)
    v = lift(6378.388) * _ACOS(z3.RealVal("1/2") * ((1 + q1) * q2 - (1 - q1) * q3)) + 1
    return z3.And(z3.ToReal(d) <= v, v < z3.ToReal(d) + 1)


def job_geo(n, q, bound, timeout_s=300):
    """GEO coordinate section on n symbolic points k/q (|k| <= bound, i.e. degrees.minutes within +-bound/q)"""
    import moptipyapps.tsp.instance as ti
    ov = core.install_builtins(dict(check_int_range=P.s_check_int_range, check_to_int_range=c09.s_check_to_int_range, isfinite=lambda v: True,
                                    cos=_s_cos, acos=_s_acos))
    also = ("__matrix_from_points", "__line_to_nums", "__dist_loglat", "__coord_to_rad", "_matrix_from_node_coord_section")
    f = xform.transform(ti._matrix_from_node_coord_section, ov, {}, also=also)
    state = {}

    def h(eng):
        ks = [[fresh_int(f"k{i}_{c}") for c in range(2)] for i in range(n)]
        eng.assume(z3.And(*[z3.And(v.e >= -bound, v.e <= bound) for r in ks for v in r]))
        lines = []
        for i in range(n):
            toks = [AtomStr(v) if q == 1 else AtomStr(core.SymReal(z3.ToReal(v.e) / q), suffix=".") for v in ks[i]]
            lines.append(f"{i + 1} " + " ".join(toks) + "\n")
        lines.append("EOF\n")
        try:
            m = f(n, "GEO", None, iter(lines))
        except (ValueError, TypeError) as e:
            eng.oblige(False, "coordinate section is accepted: " + str(e)[:80], now=True)
            return "raised"
        state["box"] = util.Box(ks=ks, m=m)
        return "loaded"
    eng = Engine(timeout_ms=60000, max_paths=64)
    per = []

    def wrapped(e):
        r = h(e)
        if r == "loaded":
            per.append((list(e.s.assertions()), state["box"]))
        return r
    eng.explore(wrapped)
    common = dict(paths=eng.paths, vacuity=dict(outcomes=dict(eng.outcomes)))
    def concrete_search(hint, why):
        """cos/acos are uninterpreted, so a model is only a hint: look for a concrete point set on which the real loader differs from
        the TSPLIB95 expression evaluated in floating point"""
        cands = [hint] if hint else []
        rnd = random.Random(12345)
        for _ in range(400):
            cands.append([[rnd.randint(-bound, bound) for _c in range(2)] for _r in range(n)])
        for pts in cands:
            w = dict(kind="coords", ewt="GEO", n=n, q=q, points=pts, label=why)
            bad, info = replay(w)
            if bad:
                w["observed"] = info
                return violated("coordinate_distances", "tsp/instance.py:_matrix_from_node_coord_section/GEO", f"GEO points={pts} (over {q}) -> {info}", w, validated=1, **common)
        return inconclusive(f"{why}; no concrete point set among {len(cands)} shows a difference", **common)
    if eng.violations or not per or eng.work or not eng.exhausted or any(k not in ("infeasible",) for k in eng.aborts):
        hint = None
        if eng.violations:
            md = {d.name(): eng.violations[0].model[d] for d in eng.violations[0].model.decls()}
            hint = [[int(str(md.get(f"k{i}_{c}", 0))) for c in range(2)] for i in range(n)]
        return concrete_search(hint, f"exploration incomplete or obligation failed under the uninterpreted cos/acos: {[v.label for v in eng.violations][:2]} {eng.aborts}")
    results = []
    for asr, box in per:
        for i in range(n):
            for j in range(i + 1):
                cells = [lift(box.m[i, j]), lift(box.m[j, i])]
                extra = []
                if i == j:
                    goal = cells[0] != 0
                else:
                    d = z3.Int("spec_d")
                    extra.append(geo_spec([k.e for k in box.ks[i]], [k.e for k in box.ks[j]], q, d, extra))
                    goal = z3.Not(z3.And(*[c == d for c in cells]))
                # lemmas first (linear, decided in milliseconds): which of the code's truncations equals which degree of the
                # specification; the proven equalities let the main query close by congruence of cos/acos
                lem = []
                tr = [x for a in asr for x in _int_consts(a) if x.decl().name().startswith("trunc")]
                tr = list({x.get_id(): x for x in tr}.values())
                dg = [x for a in extra for x in _int_consts(a) if x.decl().name().startswith("deg_")]
                dg = list({x.get_id(): x for x in dg}.values())
                lin = [a for a in asr + extra if not _mentions_uf(a)]
                for x in dg:
                    for y in tr:
                        sl = z3.Solver()
                        sl.set("timeout", 10000)
                        sl.add(*lin, x != y)
                        if str(sl.check()) == "unsat":
                            lem.append(x == y)
                s_ = z3.Solver()
                s_.set("timeout", timeout_s * 1000)
                s_.add(*asr, *extra, *lem, goal)
                t0 = time.time()
                st = str(s_.check())
                results.append(backend.Result(st, {}, "z3-default", time.time() - t0, 0) if hasattr(backend, "Result") else None)
                if st != "unsat":
                    qs, tt = util.qstats([r for r in results if r])
                    common.update(queries=qs, solver_s=tt)
                    hint = None
                    if st == "sat":
                        m_ = s_.model()
                        hint = [[int(str(m_.eval(k.e, model_completion=True))) for k in row] for row in box.ks]
                    return concrete_search(hint, f"GEO cell ({i},{j}) differs from the TSPLIB95 expression under uninterpreted cos/acos ({st})")
    qs, tt = util.qstats([r for r in results if r])
    common.update(queries=qs, solver_s=tt)
    return held(summary=f"GEO n={n} coordinates k/{q}, |k|<={bound}: every cell is the TSPLIB95 expression of its two points (cos/acos uninterpreted)",
                sample=dict(query="exists points (and functions cos, acos) for which a cell differs from int(6378.388*acos(0.5*((1+q1)*q2-(1-q1)*q3))+1)", n=n, q=q, answer="unsat"), **common)


def _mentions_uf(e):
    stack, seen = [e], set()
    while stack:
        t = stack.pop()
        if t.get_id() in seen:
            continue
        seen.add(t.get_id())
        if z3.is_app(t) and t.decl().kind() == z3.Z3_OP_UNINTERPRETED and t.num_args() > 0:
            return True
        stack.extend(t.children())
    return False


def _int_consts(e, seen=None):
    seen = set() if seen is None else seen
    out = []
    stack = [e]
    while stack:
        t = stack.pop()
        if t.get_id() in seen:
            continue
        seen.add(t.get_id())
        if z3.is_const(t) and t.decl().kind() == z3.Z3_OP_UNINTERPRETED and z3.is_int(t):
            out.append(t)
        stack.extend(t.children())
    return out


def _coord_verdict(ewt, n, q, pts, label, common):
    w = dict(kind="coords", ewt=ewt, n=n, q=q, points=pts, label=label)
    bad, info = replay(w)
    w["observed"] = info
    if bad:
        return violated("coordinate_distances", f"tsp/instance.py:_matrix_from_node_coord_section/{ewt}", f"{ewt} points={[[coord_text(k, q) for k in p] for p in pts]} -> {info}", w, validated=1, **common)
    return inconclusive(f"model does not replay: {w}", **common)



def job_selftest(seed):
    """concrete cross-check through the real loaders: formats, wrappings, round trips, tours"""
    rnd = random.Random(seed)
    cnt = 0
    for _ in range(40):
        n = rnd.randint(2, 6)
        fmt = rnd.choice(FORMATS)
        nums = [rnd.randint(0, 99) for _ in range(count_for(fmt, n))]
        lines, k = [], 0
        while k < len(nums):
            step = rnd.randint(1, 5)
            lines.append(("  " if rnd.random() < 0.3 else "") + "   ".join(map(str, nums[k:k + step])))
            k += step
        w = dict(kind="format", fmt=fmt, n=n, lines=lines)
        bad, info = replay(w)
        cnt += 1
        if bad:
            w["observed"] = info
            return violated("explicit_formats", f"tsp/instance.py:_matrix_from_edge_weights/{fmt}", f"{w}", w, validated=cnt, paths=cnt)
        D = [[0 if i == j else rnd.randint(1, 50) for j in range(n)] for i in range(n)]
        if rnd.random() < 0.5:
            for i in range(n):
                for j in range(i):
                    D[i][j] = D[j][i]
        w = dict(kind="roundtrip", D=D)
        bad, info = replay(w)
        cnt += 1
        if bad:
            w["observed"] = info
            return violated("stream_roundtrip", "tsp/instance.py:to_stream/_from_stream", f"{w}", w, validated=cnt, paths=cnt)
        nodes = list(range(1, n + 1))
        rnd.shuffle(nodes)
        if rnd.random() < 0.4:
            nodes[rnd.randrange(n)] = rnd.randint(1, n + 1)
        cut = rnd.randint(1, n)
        w = dict(kind="tour", nodes=nodes, groups=[nodes[:cut], nodes[cut:]] if cut < n else [nodes])
        bad, info = replay(w)
        cnt += 1
        if bad:
            w["observed"] = info
            return violated("tour_parser", "tsp/known_optima.py:_from_stream", f"{w}", w, validated=cnt, paths=cnt)
    for _ in range(60):
        n = rnd.randint(2, 5)
        ewt = rnd.choice(COORD_TYPES)
        q = rnd.choice((1, 1, 2, 4))
        hi = rnd.choice((3, 30, 3000, 10 ** 6))
        pts = [[rnd.randint(-hi, hi) for _c in range(2)] for _i in range(n)]
        w = dict(kind="coords", ewt=ewt, n=n, q=q, points=pts)
        bad, info = replay(w)
        cnt += 1
        if bad:
            w["observed"] = info
            return violated("coordinate_distances", f"tsp/instance.py:_matrix_from_node_coord_section/{ewt}", f"{w}", w, validated=cnt, paths=cnt)
    for _ in range(30):     # GEO: floating-point reference; a last-digit difference (|diff| = 1) is not counted here
        n = rnd.randint(2, 4)
        q = rnd.choice((1, 100))
        pts = [[rnd.randint(-90 * q, 90 * q), rnd.randint(-180 * q, 180 * q)] for _i in range(n)]
        w = dict(kind="coords", ewt="GEO", n=n, q=q, points=pts)
        bad, info = replay(w)
        cnt += 1
        if bad and ("raised" in info or any(abs(a - b) > 1 for ra, rb in zip(info["loaded"], info["expected"]) for a, b in zip(ra, rb))):
            w["observed"] = info
            return violated("coordinate_distances", "tsp/instance.py:_matrix_from_node_coord_section/GEO", f"{w}", w, validated=cnt, paths=cnt)
    return held(validated=cnt, paths=cnt, queries={}, summary=f"self-test: {cnt} concrete files through the real loaders / writer / tour parser agree with the format definitions")


def jobs(tier):
    import os
    seed = int(os.environ.get("VERIF_SEED", "0") or 0)
    js = [Job("selftest", job_selftest, dict(seed=seed), "selftest", 600)]
    for fmt in FORMATS:
        for n in (2, 3, 4) + ((5,) if tier == "thorough" else ()):
            js.append(Job(f"format/{fmt}/n{n}", job_format, dict(fmt=fmt, n=n, max_paths=1200 if tier == "quick" else 20000), "explicit_formats", 900 if tier == "quick" else 3000))
    for n in (2, 3) + ((4,) if tier == "thorough" else ()):
        for sym in (None, True):
            js.append(Job(f"roundtrip/n{n}/{'sym' if sym else 'any'}", job_roundtrip, dict(n=n, symmetric=sym), "stream_roundtrip", 900))
    for ewt in COORD_TYPES:
        for n, q, bound in ((2, 1, 10 ** 6), (3, 1, 1000), (2, 4, 4000)) + (((3, 4, 10 ** 4), (4, 1, 1000), (2, 2, 10 ** 5), (3, 1, 10 ** 6), (5, 1, 100)) if tier == "thorough" else ()):
            js.append(Job(f"coords/{ewt}/n{n}/q{q}/b{bound}", job_coords, dict(ewt=ewt, n=n, q=q, bound=bound), "coordinate_distances", 900))
    for n, q, bound in ((2, 1, 180), (2, 100, 18000)) + (((3, 1, 180), (3, 100, 18000)) if tier == "thorough" else ()):
        js.append(Job(f"coords/GEO/n{n}/q{q}", job_geo, dict(n=n, q=q, bound=bound), "coordinate_distances", 900))
    js.append(Job("tour/len3", job_tour, dict(length=3, maxnode=4), "tour_parser", 600))
    js.append(Job("tour/len4", job_tour, dict(length=4, maxnode=5), "tour_parser", 900))
    return js


def meta(tier):
    return dict(
        bounds=dict(formats="the four explicit formats, n <= 4 (thorough 5), numbers symbolic 0..10^12, every wrapping of the number stream into lines (budget 1200 paths quick / 20000 thorough; exhaustive where the evidence says so)",
                    roundtrip="Instance (real constructor, symbolic matrix n <= 3 (thorough 4), symmetric and asymmetric) -> to_stream -> _from_stream",
                    tour="node sequences of length 3-4 with node numbers 1..5, every wrapping",
                    coordinates="NODE_COORD_SECTION with EUC_2D, CEIL_2D, ATT on 2-3 (thorough up to 5) points with symbolic coordinates k/q: integer text (q=1, |k| <= 10^6 for "
                                "two points, <= 1000 for three) and decimal text (q=4 quick, q=2 and 4 thorough): per cell (A) the polynomial under the root is the squared distance of "
                                "that cell's two points (/10 for ATT), (B) for every non-negative argument the rounding logic gives the TSPLIB95 value (nearest, half up / ceiling); "
                                "sqrt is modelled exactly by squares (real semantics). GEO on 2 (thorough 3) points, integer and DDD.MM text: cell == the TSPLIB95 expression with cos/acos "
                                "uninterpreted (truncating degree conversion, double constants 3.141592 and 6378.388)"),
        outside=["IEEE rounding inside sqrt / cos / acos and of the decimal text (the square-root model is exact real arithmetic: for integer and quarter-valued coordinates up to 10^6 the "
                 "squared distance is exact in doubles and no root lies within 1e-7 of a rounding boundary, so both semantics agree - argued, not solver-checked)",
                 "the numerical values of cos/acos (GEO is checked up to these two functions)", "'every shipped tour has the documented optimum length' (a fact about shipped data, not about all inputs)",
                 "digit-level number formatting/parsing (numbers travel as opaque atoms: Python's str(int)/int(str) are assumed inverse)"],
        assumptions=["numbers are opaque atom tokens", "instances accepted by the real tsp constructor"],
        stubs=["math.sqrt -> exact algebraic model c + sqrt(x) (symx/sqrtalg.py): +constant, int(), comparisons via squares", "math.cos / math.acos -> uninterpreted functions with range axioms",
               "check_to_int_range/check_int_range re-implemented", "Instance(...) inside _from_stream -> the symbolic run of the real constructor", "np.array/zeros/fill_diagonal/reshape shims"])
