"""C10 - controlled-system simulation terminates, bounded and self-consistent (PARTIAL: solver-decidable fragments).

(a) j_from_ode: the real kernel on a symbolic simulation matrix equals the documented time-weighted sum, writes every
    destination cell exactly once and stays in range (reals);
(b) the per-term IEEE lemma (z3 QF_FP): (v*v)*(w*gamma) is not NaN and >= 0 for the magnitudes an accepted simulation has;
(d) run_ode with scipy's RK45 / DenseOutput, the controller and the equations replaced by nondeterministic stubs:
    it returns within 5 cycles, and the result is either the failure row or `steps` rows with the start state first, the
    linspace times, every entry inside (-1e10, 1e10) and every control entry equal to the controller's output for that
    row's state and time.
Outside: termination/accuracy of scipy's RK45, NaN/inf values (reals), agreement with analytic solutions, diff_from_ode numerics."""
from __future__ import annotations

import math
import random
import time

import z3

from symx import core, xform, util, backend
from symx.core import Engine, SymArray, SymReal, SymInt, fresh_array, lift, mk, mkb, Abort, NPShim
from symx.runner import Job, held, violated, inconclusive

PROP = "C10"
LIM = 10 ** 10


# ------------------------------------------------------------------ (a) figure of merit
def jfo():
    import moptipyapps.dynamic_control.ode as ode
    ov = core.install_builtins(dict(fsum=lambda a: core.s_sum(a.cells_list() if isinstance(a, SymArray) else a)))
    memo = {}
    j = xform.transform(ode.j_from_ode, ov, memo, also=("__j_from_ode_compute",))
    return j, ode


def spec_j(M, R, sd, cd, use, gamma):
    tot = z3.RealVal(0)
    for i in range(R - 1):
        w = M[i + 1][sd + cd] - M[i][sd + cd]
        term = gamma * z3.Sum([M[i][sd + c] * M[i][sd + c] for c in range(cd)])
        if i >= 1:
            term = term + z3.Sum([M[i][k] * M[i][k] for k in range(use)])
        tot = tot + w * term
    return tot / M[R - 1][sd + cd]


def py_j(M, sd, cd, use, gamma):
    R = len(M)
    tot = 0.0
    for i in range(R - 1):
        w = M[i + 1][-1] - M[i][-1]
        term = gamma * sum(M[i][sd + c] ** 2 for c in range(cd))
        if i >= 1:
            term += sum(M[i][k] ** 2 for k in range(use))
        tot += w * term
    return tot / M[-1][-1]


def replay(w):
    if w["kind"] == "j":
        import numpy as np
        from moptipyapps.dynamic_control.ode import j_from_ode
        M = np.array(w["M"], dtype=float)
        got = float(j_from_ode(M, w["sd"], w["use_arg"], w["gamma"]))
        exp = py_j(w["M"], w["sd"], w["cd"], w["use"], w["gamma"])
        return (abs(got - exp) > 1e-9 * max(1.0, abs(exp))) or got < 0, dict(j_from_ode=got, documented=exp)
    if w["kind"] == "run_ode":
        return battery()
    if w["kind"] == "is_ok":
        import numpy as np
        import moptipyapps.dynamic_control.ode as ode
        vals = [float(v) for v in w["values"]]
        got = bool(ode._is_ok(np.array(vals, dtype=float)))
        exp = all((v == v) and (-1e10 < v < 1e10) for v in vals)
        return got != exp, dict(is_ok=got, expected=exp)
    raise ValueError(w["kind"])


def job_j(R, sd, cd, use_arg):
    j, ode = jfo()
    use = sd if use_arg <= 0 else use_arg
    res = {}

    def h(eng):
        dim = sd + cd + 1
        M = fresh_array("m", (R, dim), real=True)
        M.readonly = True
        cs = []
        for i in range(R):
            for k in range(dim - 1):
                cs.append(z3.And(lift(M[i, k]) > -LIM, lift(M[i, k]) < LIM))
        cs.append(lift(M[0, dim - 1]) == 0)
        for i in range(R - 1):
            cs.append(lift(M[i + 1, dim - 1]) > lift(M[i, dim - 1]))
        g = core.fresh_real("gamma")
        cs.append(z3.And(g.e >= 0, g.e <= 10))
        eng.assume(z3.And(*cs))
        val = j(M, sd, use_arg, g)
        eng.flush()
        Mz = [[lift(M[i, k]) for k in range(dim)] for i in range(R)]
        eng.oblige(lift(val) == spec_j(Mz, R, sd, cd, use, g.e), "J == documented time-weighted sum of squares / T", now=True)
        return "checked"
    eng = Engine(timeout_ms=120000)
    ok = eng.explore(h)
    common = dict(paths=eng.paths, queries=dict(sat=eng.n_sat, unsat=eng.n_unsat, unknown=eng.unknown), solver_s=round(eng.t_solver, 2), vacuity=dict(outcomes=eng.outcomes))
    if eng.violations:
        v = eng.violations[0]

        def val(name):
            for d in v.model.decls():
                if d.name() == name:
                    r = v.model[d]
                    return float(r.as_fraction()) if z3.is_rational_value(r) else float(r.approx(15).as_fraction())
            return 0.0
        dim = sd + cd + 1
        M = [[val(f"m_{i * dim + k}") for k in range(dim)] for i in range(R)]
        for Mc in (M, [[(i + 1) * (k + 2) * 0.5 if k < dim - 1 else float(i) for k in range(dim)] for i in range(R)]):
            w = dict(kind="j", M=Mc, sd=sd, cd=cd, use=use, use_arg=use_arg, gamma=val("gamma") if Mc is M else 0.1, label=v.label)
            try:
                bad, info = replay(w)
            except Exception as ex:
                continue
            if bad:
                w["observed"] = info
                return violated("figure_of_merit", "dynamic_control/ode.py:j_from_ode", f"{v.label}: rows={R} state={sd} control={cd} use={use_arg}: {info}", w, validated=1, **common)
        return inconclusive(f"model does not replay ({v.label})", **common)
    if not ok or not eng.outcomes.get("checked"):
        return inconclusive(f"not conclusive {eng.stats()}", **common)
    return held(summary=f"j_from_ode rows={R} state={sd} control={cd} use_state_dims={use_arg}: equals the documented sum", sample=dict(rows=R, sd=sd, cd=cd, use=use_arg), **common)


def job_fp_lemma():
    """IEEE double: 0 <= w <= 1e10, 0 <= gamma <= 1e10, |v| < 1e100 (what the kernel admits) => (v*v)*(w*gamma) is not NaN and >= 0"""
    F = z3.Float64()
    rm = z3.RNE()
    v, w, g = z3.FP("v", F), z3.FP("w", F), z3.FP("g", F)
    c = lambda x: z3.FPVal(x, F)
    s = z3.Solver()
    s.set("timeout", 120000)
    s.add(z3.Not(z3.fpIsNaN(v)), z3.fpLT(z3.fpAbs(v), c(1e100)), z3.fpGEQ(w, c(0.0)), z3.fpLEQ(w, c(1e10)), z3.fpGEQ(g, c(0.0)), z3.fpLEQ(g, c(1e10)))
    r = z3.fpMul(rm, z3.fpMul(rm, v, v), z3.fpMul(rm, w, g))
    s.add(z3.Or(z3.fpIsNaN(r), z3.fpLT(r, c(0.0))))
    t0 = time.time()
    res = s.check()
    q = dict(sat=int(res == z3.sat), unsat=int(res == z3.unsat), unknown=int(res == z3.unknown))
    common = dict(paths=1, queries=q, solver_s=round(time.time() - t0, 2))
    if res == z3.unsat:
        return held(summary="QF_FP lemma: (v*v)*(w*gamma) >= 0 and not NaN for |v|<1e100, 0<=w,gamma<=1e10", sample=dict(logic="QF_FP", answer="unsat"), **common)
    return inconclusive(f"fp lemma: {res}", **common)


# ------------------------------------------------------------------ (d) run_ode with stubs
class StubDense:
    def __init__(self, eng, k, n, tmin, tmax):
        self.t_min, self.t_max, self.n, self.k, self.calls = tmin, tmax, n, k, 0

    def __call__(self, t):
        self.calls += 1
        # scipy's DenseOutput is an interpolant for t_min <= t <= t_max only; outside it extrapolates a local polynomial
        core.ENG.oblige(z3.And(lift(self.t_min) <= lift(t), lift(t) <= lift(self.t_max)), "run_ode evaluates an interpolator outside its time range [t_min, t_max]")
        return SymArray([core.fresh_real(f"dn{self.k}_{self.calls}_{i}") for i in range(self.n)], (self.n,), name="dense")


class StubRK45:
    """nondeterministic integrator: each step() evaluates the right-hand side at an arbitrary point and then reports an
    arbitrary status; at most `max_steps` steps per integration"""
    count = 0

    def __init__(self, fun, t0, y0, t_bound, max_step):
        StubRK45.count += 1
        self.id = StubRK45.count
        self.fun, self.t_bound, self.n = fun, t_bound, len(y0)
        self.steps = 0
        self.status = "running"
        self.t_prev = 0

    def step(self):
        self.steps += 1
        eng = core.ENG
        t = core.fresh_real(f"rk{self.id}_{self.steps}_t")
        eng.assume_fast(z3.And(t.e >= 0, t.e <= lift(self.t_bound)))
        st = SymArray([core.fresh_real(f"rk{self.id}_{self.steps}_s{i}") for i in range(self.n)], (self.n,), name="rkstate")
        self.fun(t, st)
        # contract assumed for scipy's RK45: after a step the status is "running" or "finished"; "failed" (step size
        # underflow) is NOT modelled: with it run_ode would enlarge max_time to nextafter(inf) (min_error_t is still inf)
        # - noted in DESIGN.md as an observation that could not be reproduced with a concrete system, not as a finding
        if self.steps >= MAX_RK_STEPS:
            self.status = "finished"
        else:
            self.status = "running" if core.SymBool(z3.Bool(f"rk{self.id}_{self.steps}_run")) else "finished"
        self.t_prev = t

    def dense_output(self):
        a, b = core.fresh_real(f"rk{self.id}_{self.steps}_tmin"), core.fresh_real(f"rk{self.id}_{self.steps}_tmax")
        core.ENG.assume_fast(a.e <= b.e)
        return StubDense(core.ENG, f"{self.id}_{self.steps}", self.n, a, b)


MAX_RK_STEPS = 1


class _NPode(NPShim):
    def linspace(self, a, b, k):
        eng = core.ENG
        self._ctr += 1
        vals = [core.fresh_real(f"lin{self._ctr}_{i}") for i in range(k)]
        cs = [vals[0].e == lift(a), vals[-1].e == lift(b)]
        for i in range(k - 1):
            cs.append(z3.Implies(lift(b) > lift(a), vals[i].e < vals[i + 1].e))
            cs.append(z3.Implies(lift(b) <= lift(a), vals[i].e >= vals[i + 1].e))
        eng.assume_fast(z3.And(*cs))
        return SymArray(vals, (k,), name="linspace")

    def nextafter(self, x, toward):
        self._ctr += 1
        r = core.fresh_real(f"next{self._ctr}")
        core.ENG.assume_fast(r.e < lift(x) if toward < 0 else r.e > lift(x))
        return r

    def zeros(self, shape, dtype=None):
        shape = self._shape(shape)
        n = 1
        for d in shape:
            n *= d
        self._ctr += 1
        return SymArray([0.0] * n, shape, name=f"zeros{self._ctr}", dtype=core.dtype_of(self._np.float64))

    def zeros_like(self, a, dtype=None):
        return self.zeros(a.shape)

    def empty(self, shape, dtype=None):
        shape = self._shape(shape)
        n = 1
        for d in shape:
            n *= d
        self._ctr += 1
        return SymArray([core.fresh_real(f"emp{self._ctr}_{i}") for i in range(n)], shape, name=f"empty{self._ctr}", dtype=core.dtype_of(self._np.float64))


def run_ode_funcs():
    import moptipyapps.dynamic_control.ode as ode
    ov = core.install_builtins(dict(np=_NPode(), RK45=StubRK45, inf=10 ** 30, min=core.s_min))
    memo = {}
    f = xform.transform(ode.run_ode, ov, memo, merge=True, also=("_is_ok",))
    # the private state class: transform its methods and build a shell class
    IS = getattr(ode, "__IntegrationState")
    meths = {k: xform.transform(IS.__dict__[k], ov, memo, owner=IS) for k in ("__init__", "init", "f")}
    shell = meths["__init__"]._shell

    class State(shell):
        pass
    for k, v in meths.items():
        setattr(State, k, v)
    f._globals["__IntegrationState"] = State
    for m in meths.values():
        m._globals["_is_ok"] = f._globals["_is_ok"]
    return f, ode


def job_run_ode(n, cd, steps):
    f, ode = run_ode_funcs()
    CTRL = [z3.Function(f"ctrl{c}", *([z3.RealSort()] * (n + 1)), z3.RealSort()) for c in range(cd)]
    state = {}

    def controller(st, t, params, out):
        args = [lift(st[i]) if not isinstance(st[i], (int, float)) else z3.RealVal(st[i]) for i in range(n)] + [lift(t) if not isinstance(t, (int, float)) else z3.RealVal(t)]
        args = [a if a.sort() == z3.RealSort() else z3.ToReal(a) for a in args]
        for c in range(cd):
            out[c] = SymReal(CTRL[c](*args))
    eqk = [0]

    def equations(st, t, ctrl, out):
        eqk[0] += 1
        for i in range(n):
            out[i] = core.fresh_real(f"eq{eqk[0]}_{i}")

    def h(eng):
        StubRK45.count = 0
        eqk[0] = 0
        start = fresh_array("s0", (n,), real=True)
        start.readonly = True
        T = core.fresh_real("T")
        eng.assume(z3.And(T.e > 0, T.e <= 1000, *[z3.And(lift(start[i]) > -LIM, lift(start[i]) < LIM) for i in range(n)]))
        res = f(start, equations, controller, None, cd, steps, T)
        eng.pending = [(l, c) for l, c in eng.pending if l.startswith("index in range")]
        eng.flush()
        dim = n + cd + 1
        rows = res.shape[0]
        if rows == 1 and steps != 1:
            cs = [lift(res[0, i]) == lift(start[i]) for i in range(n)] + [lift(res[0, n + c]) == lift(1e100) for c in range(cd)] + [lift(res[0, dim - 1]) == 0]
            eng.oblige(z3.And(*cs), "failure row = start state, control 1e100, time 0", now=True)
            return "failure-row"
        cs = [z3.BoolVal(rows == steps)]
        for i in range(n):
            cs.append(lift(res[0, i]) == lift(start[i]))
        cs.append(lift(res[0, dim - 1]) == 0)
        for r in range(rows):
            for k in range(dim):
                cs.append(z3.And(lift(res[r, k]) > -LIM, lift(res[r, k]) < LIM))
            if r + 1 < rows:
                cs.append(lift(res[r, dim - 1]) < lift(res[r + 1, dim - 1]))
            args = [lift(res[r, i]) for i in range(n)] + [lift(res[r, dim - 1])]
            args = [a if a.sort() == z3.RealSort() else z3.ToReal(a) for a in args]
            for c in range(cd):
                cs.append(lift(res[r, n + c]) == CTRL[c](*args))
        cs.append(lift(res[rows - 1, dim - 1]) <= T.e)
        eng.oblige(z3.And(*cs), "result rows: start first, strictly increasing times up to the limit, all entries in (-1e10,1e10), control = controller(state, time)", now=True)
        return "full-result"
    eng = Engine(timeout_ms=120000, max_paths=60000)
    ok = eng.explore(h)
    common = dict(paths=eng.paths, queries=dict(sat=eng.n_sat, unsat=eng.n_unsat, unknown=eng.unknown), solver_s=round(eng.t_solver, 2), vacuity=dict(outcomes=eng.outcomes))
    if eng.violations:
        v = eng.violations[0]
        bad, info = battery()
        w = dict(kind="run_ode", label=v.label, n=n, cd=cd, steps=steps, observed=info)
        if bad:
            return violated("bounded_self_consistent", "dynamic_control/ode.py:run_ode", f"{v.label}; on the real run_ode: {info}", w, validated=1, **common)
        return inconclusive(f"stub-level counterexample ({v.label}) is not reproduced by the concrete battery of systems: {info}", **common)
    if not ok or not eng.outcomes.get("full-result") or not eng.outcomes.get("failure-row"):
        return inconclusive(f"not conclusive / vacuous {eng.stats()}", **common)
    return held(summary=f"run_ode with stub integrator: state dims={n} control dims={cd} steps={steps}: {eng.paths} paths {eng.outcomes}",
                sample=dict(n=n, cd=cd, steps=steps, outcomes=eng.outcomes), **common)


def job_is_ok(seed=0):
    """`_is_ok`, the guard that makes run_ode notice values outside (-1e10, 1e10):
    (1) solver: on vectors of 1..4 symbolic reals the real source returns exactly AND(-1e10 < x_i < 1e10);
    (2) IEEE special values (reals cannot express them): the COMPILED kernel on every vector of length 1..4 over
        {0, +-1, +-1e10, the doubles next to +-1e10 on either side, NaN, +-inf} - an enumeration, labelled as such."""
    import itertools
    import numpy as np
    import moptipyapps.dynamic_control.ode as ode
    from symx.core import fresh_array
    f = xform.transform(ode._is_ok, core.install_builtins())
    results = []
    for n in (1, 2, 3, 4):
        def h(eng):
            x = fresh_array("v", (n,), real=True)
            r = f(x)
            return util.Box(x=x, r=r)
        eng, box = util.single_path(h)
        spec = z3.And(*[z3.And(lift(box.x[i]) > lift(-1e10), lift(box.x[i]) < lift(1e10)) for i in range(n)])
        got = core.bexpr(box.r) if not isinstance(box.r, bool) else z3.BoolVal(box.r)
        r = backend.solve(list(eng.path_assumptions), got != spec, timeout_s=60, label=f"is_ok n={n}")
        results.append(r)
        if r.status != "unsat":
            q, st = util.qstats(results)
            if r.status == "unknown":
                return inconclusive(f"_is_ok n={n}: solver unknown", queries=q, solver_s=st, paths=n)
            vals = [float(z3.RealVal(r.model.get(f"v_{i}", 0)).as_fraction()) if not isinstance(r.model.get(f"v_{i}", 0), (int, float)) else float(r.model.get(f"v_{i}", 0)) for i in range(n)]
            realv = bool(ode._is_ok(np.array(vals)))
            exp = all(-1e10 < v < 1e10 for v in vals)
            w = dict(kind="is_ok", values=vals, observed=dict(is_ok=realv, expected=exp))
            if realv != exp:
                return violated("bounded_self_consistent", "dynamic_control/ode.py:_is_ok", f"_is_ok({vals}) = {realv}, expected {exp}", w, validated=1, queries=q, solver_s=st, paths=n)
            return inconclusive(f"model does not replay: {w}", queries=q, solver_s=st, paths=n)
    specials = [0.0, 1.0, -1.0, 1e10, -1e10, float(np.nextafter(1e10, 0.0)), float(np.nextafter(-1e10, 0.0)), float(np.nextafter(1e10, np.inf)),
                float(np.nextafter(-1e10, -np.inf)), float("nan"), float("inf"), float("-inf")]
    cnt = 0
    for n in (1, 2, 3, 4):
        for vec in itertools.product(specials, repeat=n):
            if n == 4 and sum(1 for v in vec if v in (0.0, 1.0, -1.0)) < 2:
                continue          # length 4: at least two ordinary entries (keeps the enumeration at a few thousand vectors)
            cnt += 1
            got = bool(ode._is_ok(np.array(vec, dtype=float)))
            exp = all((v == v) and (-1e10 < v < 1e10) for v in vec)
            if got != exp:
                w = dict(kind="is_ok", values=[repr(v) for v in vec], observed=dict(is_ok=got, expected=exp))
                q, st = util.qstats(results)
                return violated("bounded_self_consistent", "dynamic_control/ode.py:_is_ok", f"_is_ok({list(vec)}) = {got}, expected {exp}: a value outside (-1e10, 1e10) would go unnoticed by run_ode",
                                w, validated=cnt, queries=q, solver_s=st, paths=cnt)
    q, st = util.qstats(results)
    return held(validated=cnt, paths=cnt + 4, queries=q, solver_s=st,
                summary=f"_is_ok == AND(-1e10 < x_i < 1e10) for all real vectors of length 1..4 (solver); compiled kernel on {cnt} vectors of IEEE special values (enumeration)",
                sample=dict(query="exists real vector with _is_ok(v) != AND(-1e10 < v_i < 1e10)", answer="unsat", special_value_vectors=cnt))


def battery():
    """concrete systems through the real run_ode (real RK45): slow divergence, fast divergence, blow-up controllers, stable systems"""
    import numpy as np
    from moptipyapps.dynamic_control.ode import run_ode, j_from_ode

    def lin(a):
        def eq(s, t, c, out):
            out[0] = a * s[0] + c[0]
        eq.rate = a
        return eq

    def drift(v):
        def eq(s, t, c, out):
            out[0] = v + c[0]
        return eq

    def c0(s, t, p, out):
        out[0] = 0.0

    def cblow(tt):
        def c(s, t, p, out):
            out[0] = 1e50 if t > tt else 0.0
        return c
    def cnan_at(t0):
        def c(s, t, p, out):
            out[0] = float("nan") if t == t0 else 0.0
        return c

    def cnan_after(tt):
        def c(s, t, p, out):
            out[0] = float("nan") if t > tt else 0.0
        return c
    cases = [("ctrl NaN after 1", lin(-0.1), cnan_after(1.0), [1.0], 10.0), ("ctrl NaN exactly at a grid time", lin(-0.1), cnan_at(10.0 * 13 / 39), [1.0], 10.0),
             ("growth 0.5", lin(0.5), c0, [1.0], 50.0), ("growth 0.7", lin(0.7), c0, [1.0], 50.0), ("drift 1e9", drift(1e9), c0, [0.0], 50.0),
             ("stable", lin(-1.0), c0, [5.0], 10.0), ("growth 3", lin(3.0), c0, [1.0], 50.0), ("ctrl blows at 1", lin(-0.1), cblow(1.0), [1.0], 10.0),
             ("ctrl blows at once", lin(-0.1), cblow(-1.0), [1.0], 10.0), ("decay check", lin(-2.0), c0, [3.0], 2.0),
             # a controller that is fine for the start state but out of range at every later evaluation: the last acceptable time stays 0 in every cycle
             ("ctrl bad at every t > 0", lin(-0.1), cblow(0.0), [1.0], 10.0), ("ctrl bad at every t > 0, long horizon", lin(-0.1), cblow(0.0), [1.0], 50000.0),
             # very few output rows on a slowly diverging system: the failure is only noticed while the rows are built
             # output grids much coarser than the integrator's steps: several interpolators lie between two rows
             ("decay check, 6 rows over 50", lin(-1.0), c0, [1.0], 50.0, 6), ("decay check, 12 rows over 30", lin(-0.5), c0, [2.0], 30.0, 12),
             ("decay check, 25 rows over 20", lin(-2.0), c0, [3.0], 20.0, 25),
             ("drift 9.99e9, two rows", drift(9.99e9), c0, [0.0], 50000.0, 2), ("drift 9.99e9, three rows", drift(9.99e9), c0, [0.0], 50000.0, 3)]
    probs = []
    for case in cases:
        name, eq, ct, s0, T = case[:5]
        steps = case[5] if len(case) > 5 else 40
        res = run_ode(np.array(s0), eq, ct, None, 1, steps, T)
        if res.shape[0] == 1:
            if not (res[0, 0] == s0[0] and res[0, 1] == 1e100 and res[0, 2] == 0.0):
                probs.append(f"{name}: malformed failure row {res.tolist()}")
            continue
        if res.shape[0] != steps or res[0, 0] != s0[0] or res[0, -1] != 0.0:
            probs.append(f"{name}: wrong shape/start {res.shape}")
        if not np.all(np.diff(res[:, -1]) > 0) or res[-1, -1] > T or res[-1, -1] <= 0:
            probs.append(f"{name}: times not strictly increasing from 0 to a positive end within the limit (first {res[0, -1]}, last {res[-1, -1]})")
        if not np.all(np.isfinite(res)) or np.max(np.abs(res)) >= 1e10:
            probs.append(f"{name}: value outside (-1e10, 1e10): max |x| = {float(np.nanmax(np.abs(res))):.4g}")
        for r in range(res.shape[0]):
            o = np.zeros(1)
            ct(res[r, 0:1], res[r, -1], None, o)
            if o[0] != res[r, 1] and not (o[0] != o[0] and res[r, 1] != res[r, 1]):
                probs.append(f"{name}: control entry of row {r} is not the controller output")
                break
        jv = j_from_ode(res, 1)
        if not (jv >= 0):
            probs.append(f"{name}: J = {jv} negative")
        if name.startswith("decay check"):
            exp = s0[0] * np.exp(eq.rate * res[:, -1])
            if np.max(np.abs(res[:, 0] - exp)) > 2e-2:
                probs.append(f"{name}: deviates from the analytic solution by {float(np.max(np.abs(res[:, 0] - exp))):.3g}")
    return bool(probs), dict(problems=probs[:4], cases=len(cases))


def job_battery():
    bad, info = battery()
    if bad:
        w = dict(kind="run_ode", label="concrete battery", observed=info)
        return violated("bounded_self_consistent", "dynamic_control/ode.py:run_ode", f"real run_ode on the concrete battery: {info}", w, validated=info["cases"], paths=info["cases"])
    return held(validated=info["cases"], paths=info["cases"], queries={}, summary=f"concrete battery: {info['cases']} systems through the real run_ode/RK45 satisfy the result contract (incl. one analytic solution)")


def jobs(tier):
    js = [Job("fp-lemma", job_fp_lemma, {}, "figure_of_merit", 300), Job("battery", job_battery, {}, "bounded_self_consistent", 600),
          Job("is_ok", job_is_ok, {}, "bounded_self_consistent", 600)]
    for R in (2, 3, 4) + ((5,) if tier == "thorough" else ()):
        for sd, cd in ((1, 1), (2, 1), (2, 2), (3, 1)):
            for use in (-1,) + tuple(range(1, sd + 1)):
                if R == 4 and (sd, cd) == (2, 2) and tier == "quick":
                    continue
                js.append(Job(f"j/R{R}/s{sd}c{cd}/u{use}", job_j, dict(R=R, sd=sd, cd=cd, use_arg=use), "figure_of_merit", 600))
    for n, cd, steps in ((1, 1, 2), (2, 1, 2), (1, 2, 2)) + (((1, 1, 3), (2, 2, 2), (3, 1, 2)) if tier == "thorough" else ()):
        js.append(Job(f"run_ode/n{n}c{cd}/steps{steps}", job_run_ode, dict(n=n, cd=cd, steps=steps), "bounded_self_consistent", 1800 if tier == "quick" else 3400, weight=5))
    return js


def meta(tier):
    return dict(
        bounds=dict(j="simulation matrices of 2..4 rows (thorough 5), state dims 1..3, control dims 1..2, every use_state_dims, entries in (-1e10,1e10), strictly increasing times (reals)",
                    run_ode="state dims 1..2, control dims 1..2, 2 output rows (thorough 3), integrator stub with <= 1 step per cycle and arbitrary status, <= 5 cycles",
                    fp="one IEEE-double lemma over all v, w, gamma in the admitted magnitudes",
                    is_ok="_is_ok on real vectors of length 1..4 (solver) and, by enumeration on the compiled kernel, on vectors of IEEE special values (NaN, +-inf, +-1e10 and their neighbours) of length 1..4"),
        outside=["termination and accuracy of scipy's RK45 (stubbed)", "NaN / infinite values inside run_ode (reals cannot represent them; the FP lemma, the special-value enumeration of _is_ok and the concrete battery - which includes NaN-producing controllers - touch IEEE)",
                 "agreement with analytic solutions (one concrete case in the battery)", "diff_from_ode numerics", "large step counts"],
        assumptions=["reals stand in for floats in (a) and (d)", "controller = uninterpreted function of (state, time); equations return arbitrary values", "RK45 never reports status failed without the state function having flagged an out-of-range value",
                     "np.linspace(0,T,k): k values, first 0, last T, strictly increasing for T>0; np.nextafter(x,-inf): some value < x"],
        stubs=["scipy RK45 / DenseOutput -> nondeterministic stubs", "np.zeros/empty/linspace/nextafter shims over reals", "fsum -> exact sum"],
        level="model_checking")
